#!/venv/bin/python
"""eval_seeded.py <Cxx> <k> [--all] [--tier quick|thorough]

Confirms a sub-agent's seeded change (/tmp/seed-out/Cxx/patch<k>.diff + demo<k>.py)
in a scratch copy of /repo (outside /repo and /verif, removed afterwards):
  1. demo passes on the clean copy,
  2. with the patch: the repository's 190 tests pass and the demo fails,
  3. runs /verif checks against the patched copy and records which fire.
Keeps it as /verif/seeded/<Cxx>-<k>/ {patch.diff, demo.py, notes.md, meta.json}.
"""
import json, os, shutil, subprocess, sys, tempfile, time
from pathlib import Path

pid, k = sys.argv[1], sys.argv[2]
run_all = "--all" in sys.argv
tier = sys.argv[sys.argv.index("--tier") + 1] if "--tier" in sys.argv else "quick"
srcroot = sys.argv[sys.argv.index("--src") + 1] if "--src" in sys.argv else "/tmp/seed-out"
label = sys.argv[sys.argv.index("--as") + 1] if "--as" in sys.argv else k
src = Path(srcroot) / pid
seeded_dir = Path("/verif/seeded") / f"{pid}-{label}"
if not (src / f"patch{k}.diff").exists() and (seeded_dir / "patch.diff").exists():
    src = None
patch = (src / f"patch{k}.diff") if src else seeded_dir / "patch.diff"
demo = (src / f"demo{k}.py") if src else seeded_dir / "demo.py"
notes = (src / f"notes{k}.md") if src else seeded_dir / "notes.md"

scratch = Path(tempfile.mkdtemp(prefix="jsv-seed-"))
meta = {"property": pid, "variant": int(label), "ran": []}
try:
    repo = scratch / "repo"
    subprocess.run(["git", "clone", "-q", "--no-hardlinks", "/repo", str(repo)], check=True)
    env = dict(os.environ, PYTHONPATH=str(repo), PYTHONDONTWRITEBYTECODE="1", MPLBACKEND="Agg")

    def py(args, cwd=repo, timeout=1200, extra=None):
        e = dict(env)
        if extra:
            e.update(extra)
        return subprocess.run(["/venv/bin/python"] + args, cwd=cwd, env=e, capture_output=True,
                              text=True, timeout=timeout)

    r = py([str(demo)])
    meta["demo_clean_exit"] = r.returncode
    ap = subprocess.run(["git", "apply", "--whitespace=nowarn", str(patch)], cwd=repo, capture_output=True, text=True)
    meta["patch_applies"] = ap.returncode == 0
    if ap.returncode != 0:
        print("PATCH DOES NOT APPLY", ap.stderr[:300])
    else:
        t = py(["-m", "pytest", "-q", "-p", "no:cacheprovider", "--timeout=900", "-x"])
        tail = t.stdout.strip().splitlines()[-1] if t.stdout.strip() else ""
        meta["tests_with_patch"] = tail
        meta["tests_pass"] = t.returncode == 0 and "190 passed" in tail
        r2 = py([str(demo)])
        meta["demo_patched_exit"] = r2.returncode
        meta["demo_message"] = (r2.stderr.strip().splitlines() or [""])[-1][:300]
        meta["confirmed"] = bool(meta["demo_clean_exit"] == 0 and meta["tests_pass"] and r2.returncode != 0)
        checks = [f"C{i:02d}" for i in range(1, 21)] if run_all else [pid]
        caught = {}
        for c in checks:
            t0 = time.time()
            home = os.environ.get("JSVERIF_CHECK_HOME", "/verif")   # a snapshot of /verif may be used
            cr = subprocess.run([home + "/check", c, "--tier", tier], cwd=home, capture_output=True, text=True,
                                env=dict(os.environ, JSVERIF_REPO=str(repo), PYTHONPATH=str(repo),
                                         JSVERIF_EVIDENCE_DIR=str(scratch / "evidence"),
                                         JSVERIF_REPLAY_DIR=str(scratch / "replays")), timeout=7200)
            kinds = sorted({ln.split("kind=")[1].strip() for ln in cr.stdout.splitlines() if "kind=" in ln})
            caught[c] = {"exit": cr.returncode, "kinds": kinds, "wall_s": round(time.time() - t0, 1)}
            meta["ran"].append(f"./check {c} --tier {tier} (against patched scratch copy)")
            print(f"  {c}: exit={cr.returncode} {kinds[:4]}")
            if cr.returncode not in (0, 1):
                print(cr.stdout[-600:])
        meta["checks"] = caught
        meta["caught_by"] = [c for c, v in caught.items() if v["exit"] == 1]
        meta["caught_by_own_check"] = caught.get(pid, {}).get("exit") == 1
finally:
    shutil.rmtree(scratch, ignore_errors=True)

if src and meta.get("confirmed"):
    seeded_dir.mkdir(parents=True, exist_ok=True)
    shutil.copy(patch, seeded_dir / "patch.diff")
    shutil.copy(demo, seeded_dir / "demo.py")
    if notes.exists():
        shutil.copy(notes, seeded_dir / "notes.md")
if seeded_dir.exists():
    old = {}
    if (seeded_dir / "meta.json").exists():
        old = json.loads((seeded_dir / "meta.json").read_text())
    if notes.exists():
        meta["needs_to_manifest"] = notes.read_text()[:1500]
    hist = old.get("history", [])
    hist.append({"tier": tier, "caught_by": meta.get("caught_by"), "checks": meta.get("checks")})
    meta["history"] = hist[-6:]
    (seeded_dir / "meta.json").write_text(json.dumps(meta, indent=1))
print(json.dumps({k_: meta.get(k_) for k_ in ("property", "variant", "confirmed", "tests_with_patch",
                                              "demo_clean_exit", "demo_patched_exit", "caught_by")}))
