#!/venv/bin/python
"""eval_benign.py <Cxx> <k> [--src dir] [--tag t] [--checks C01,C02,...]

False-alarm probe.  Takes a behaviour-preserving change written by an independent sub-agent
(<src>/<Cxx>/patch<k>.diff + notes<k>.md; the agent was given only the text of the property and
asked for a realistic refactoring / optimisation / compatible extension under which the property
still holds), applies it to a scratch clone of /repo (outside /repo and /verif, removed
afterwards), runs the repository's 190 tests and then the quick tier of the checks against the
patched copy.  Every check is expected to exit 0; anything else is printed for triage (a genuine
break written by mistake, or a false alarm of the check).  Keeps the change as
/verif/benign/<Cxx>-<k>/ {patch.diff, notes.md, meta.json}.
"""
import json, os, shutil, subprocess, sys, tempfile, time
from pathlib import Path

pid, k = sys.argv[1], sys.argv[2]
srcroot = sys.argv[sys.argv.index("--src") + 1] if "--src" in sys.argv else "/tmp/benign-out"
only = sys.argv[sys.argv.index("--checks") + 1].split(",") if "--checks" in sys.argv else None
tag = sys.argv[sys.argv.index("--tag") + 1] if "--tag" in sys.argv else ""
keep = Path("/verif/benign") / f"{pid}-{tag}{k}"
src = Path(srcroot) / pid
patch = src / f"patch{k}.diff" if (src / f"patch{k}.diff").exists() else keep / "patch.diff"
notes = src / f"notes{k}.md" if (src / f"notes{k}.md").exists() else keep / "notes.md"

scratch = Path(tempfile.mkdtemp(prefix="jsv-benign-"))
meta = {"written_for": pid, "variant": k}
try:
    repo = scratch / "repo"
    subprocess.run(["git", "clone", "-q", "--no-hardlinks", "/repo", str(repo)], check=True)
    env = dict(os.environ, PYTHONPATH=str(repo), PYTHONDONTWRITEBYTECODE="1", MPLBACKEND="Agg")
    ap = subprocess.run(["git", "apply", "--whitespace=nowarn", str(patch)], cwd=repo,
                        capture_output=True, text=True)
    meta["patch_applies"] = ap.returncode == 0
    if ap.returncode != 0:
        print("PATCH DOES NOT APPLY", ap.stderr[:300])
    else:
        t = subprocess.run(["/venv/bin/python", "-m", "pytest", "-q", "-p", "no:cacheprovider",
                            "--timeout=900", "-x"], cwd=repo, env=env, capture_output=True, text=True)
        tail = t.stdout.strip().splitlines()[-1] if t.stdout.strip() else ""
        meta["tests_with_patch"] = tail
        meta["tests_pass"] = t.returncode == 0 and "190 passed" in tail
        checks = only or [f"C{i:02d}" for i in range(1, 21)]
        res = {}
        for c in checks:
            t0 = time.time()
            home = os.environ.get("JSVERIF_CHECK_HOME", "/verif")   # a snapshot of /verif may be used
            cr = subprocess.run([home + "/check", c, "--tier", "quick"], cwd=home,
                                capture_output=True, text=True,
                                env=dict(os.environ, JSVERIF_REPO=str(repo), PYTHONPATH=str(repo),
                                         JSVERIF_EVIDENCE_DIR=str(scratch / "evidence"),
                                         JSVERIF_REPLAY_DIR=str(scratch / "replays")), timeout=7200)
            kinds = sorted({ln.split("kind=")[1].strip() for ln in cr.stdout.splitlines() if "kind=" in ln})
            res[c] = {"exit": cr.returncode, "kinds": kinds, "wall_s": round(time.time() - t0, 1)}
            if cr.returncode != 0:
                print(f"  {c}: exit={cr.returncode} {kinds[:4]}")
                first = next((ln for ln in cr.stdout.splitlines() if ln.startswith("VIOLATION")
                              or ln.startswith("INCONCLUSIVE")), "")
                print("   ", first[:200])
                # keep one witness for triage
                rp = first.split("replay=")[1].split()[0] if "replay=" in first else None
                if rp:
                    f = (scratch / "replays" / Path(rp).relative_to("replays")) if rp.startswith("replays") else Path(rp)
                    if f.exists():
                        res[c]["witness"] = f.read_text()[:3000]
        meta["checks"] = res
        meta["alarms"] = [c for c, v in res.items() if v["exit"] != 0]
finally:
    shutil.rmtree(scratch, ignore_errors=True)

keep.mkdir(parents=True, exist_ok=True)
if patch.parent != keep:
    shutil.copy(patch, keep / "patch.diff")
    if notes.exists():
        shutil.copy(notes, keep / "notes.md")
(keep / "meta.json").write_text(json.dumps(meta, indent=1))
print(json.dumps({"for": pid, "k": k, "applies": meta.get("patch_applies"),
                  "tests_pass": meta.get("tests_pass"), "alarms": meta.get("alarms")}))
