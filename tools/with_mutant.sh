#!/bin/sh
# usage: tools/with_mutant.sh <patch-file> <command...>
# Applies a patch to a scratch copy of /repo (outside /repo and /verif), runs
# the command with the scratch copy first on PYTHONPATH (JSVERIF_REPO set), and
# removes the scratch copy.
patch="$1"; shift
scratch="$(mktemp -d /tmp/jsv-mut-XXXXXX)"
trap 'rm -rf "$scratch"' EXIT
mkdir -p "$scratch/repo"
cp -r /repo/job_shop_lib /repo/tests /repo/pyproject.toml "$scratch/repo/" 2>/dev/null
( cd "$scratch/repo" && git init -q . && git apply --whitespace=nowarn "$patch" ) || { echo "PATCH FAILED: $patch"; exit 99; }
JSVERIF_EVIDENCE_DIR="$scratch/evidence" JSVERIF_REPO="$scratch/repo" PYTHONPATH="$scratch/repo" "$@"
