#!/venv/bin/python
"""mkmut.py <name> <repo-relative-file> <old> <new>  -> mutants/<name>.patch
(exact, unique string replacement turned into a unified diff)"""
import sys, difflib, pathlib
name, rel, old, new = sys.argv[1:5]
src = pathlib.Path('/repo', rel).read_text()
assert src.count(old) == 1, f"old string occurs {src.count(old)} times"
dst = src.replace(old, new)
diff = difflib.unified_diff(src.splitlines(True), dst.splitlines(True), 'a/' + rel, 'b/' + rel)
pathlib.Path('/verif/mutants', name + '.patch').write_text(''.join(diff))
print('wrote', name)
