#!/venv/bin/python
"""Validates MANIFEST.json and evidence/*.json against the harness schemas."""
import json, sys, glob
import jsonschema
ms = json.load(open('/root/.vp/MANIFEST.schema.json'))
es = json.load(open('/root/.vp/EVIDENCE.schema.json'))
m = json.load(open('/verif/MANIFEST.json'))
jsonschema.validate(m, ms)
bad = 0
for c in m['checks']:
    f = '/verif/' + c['evidence_file'] if not c['evidence_file'].startswith('/') else c['evidence_file']
    try:
        e = json.load(open(f))
        jsonschema.validate(e, es)
        assert e['level'] == c['level_claimed']['category'], 'level mismatch'
        print('ok ', c['property_id'], e['tier'], e['coverage']['evaluations'], e['coverage']['distinct_nontrivial'], e['wall_s'])
    except Exception as ex:
        bad += 1
        print('BAD', c['property_id'], str(ex)[:200])
for f in glob.glob('/verif/evidence/*.json'):
    jsonschema.validate(json.load(open(f)), es)
sys.exit(1 if bad else 0)
