#!/venv/bin/python
"""Regenerates MANIFEST.json from the table below + which check modules exist."""
import json, os, importlib, sys
sys.path.insert(0, '/verif')
props = [json.loads(l) for l in open('/verif/properties.jsonl')]

T = {
 "C01": ("invariant hook: feasibility post-condition on every Dispatcher.dispatch (runtime monitor) over generated histories + exhaustive tiny trees",
         "Feasibility of the dispatcher's schedule is asserted by a contract hooked on the real Dispatcher.dispatch after every accepted dispatch of every generated history (all instance classes, filters, policies, machine choices), complete trees of tiny instances, library consumers and benchmark instances; thorough also runs the repository's suite under the contract. Held-on-what-was-observed, not a proof.",
         "own feasibility checker (two independent versions); seeded generators; CPython"),
 "C02": ("lock-step reference model + pre-state contract on dispatch + replay twins (fresh / reset / GIF frame path)",
         "Every dispatched operation's start is compared with max(job ready, machine free) derived from the pre-state by the contract layer and by an independent reference model stepped in lock-step; tracking vectors, count and makespan are compared with values derived from the schedule; recorded histories are replayed on fresh and reset dispatchers and through the frame-replay path.",
         "reference model jsverif/ref.py (cross-checked against the contract layer's independent derivation)"),
 "C03": ("differential oracle: independent exhaustive optimum + independent feasibility checker + bounds on real CP-SAT runs, reused-solver twins",
         "The real ORToolsSolver is run on generated non-flexible instances (zero durations, recirculation, gaps, irregular) and benchmarks; results are judged by an independent feasibility checker, metadata consistency, an independent exhaustive optimum (<= 10 operations), lower bounds, dispatching-rule upper bounds and recorded benchmark optima; solver objects are reused across random sequences and compared with fresh solvers.",
         "OR-Tools CP-SAT itself is not verified, only the library's model/reconstruction; reference search in jsverif/ref.py"),
 "C04": ("boundary recorders on solver.dispatching_rule / machine_chooser checked per step against the rule's criterion by a reference model; step budgets",
         "solver.dispatching_rule and solver.machine_chooser (public attributes) are wrapped by recorders; before each step the reference model computes the available set and the rule criterion and judges the selection; termination is judged by a dispatch-count budget; metadata (elapsed_time, solved_by) is checked on __call__.",
         "reference filters/criteria in jsverif/ref.py; MOR accepted under either reading of 'remaining'"),
 "C05": ("random query-sequence monitor: each answer compared with the reference model at return time; ordered query pairs from cold caches",
         "At every state of generated histories random sequences of cached and parametrised queries are issued on the real dispatcher and each answer is compared with an independent reference when returned, so order/caching effects are observable; all ordered pairs of cached queries on tiny instances; resets inside histories.",
         "reference model jsverif/ref.py"),
 "C06": ("clock shadow monitor (previous value in hand) + unfiltered twin dispatcher + reference clock",
         "After every dispatch the real clock is compared with its previous value, the reference clock and (under filters, positive durations) an unfiltered twin fed the same history; completed sets must grow; clock == makespan at completion.",
         "reference model; property scope excludes filters with zero durations"),
 "C07": ("reference-criterion oracle on every filter application over reachable states and sub-lists",
         "Every built-in filter (by function/string/enum/factory) and random compositions are applied to full, partial and singleton ready lists at every reachable state of generated histories; results are judged against generic sub-list obligations and the documented criteria re-implemented independently; available-only histories must complete.",
         "criteria re-implemented from docstrings in jsverif/ref.py"),
 "C08": ("complete walk of the real dispatcher's filtered dispatch tree vs independent exhaustive optimum",
         "For each small positive-duration instance the real dispatcher's tree under filter_dominated_operations is walked completely and its best makespan compared with an independent exhaustive optimum (and with the real unfiltered tree on a subset). Exhaustive per instance, exploration over instances.",
         "semi-active schedules contain an optimum (standard); reference search in jsverif/ref.py"),
 "C09": ("fault injection at every position of every history + deep before/after snapshot + no-injection twin",
         "Every kind of invalid dispatch request / env step is injected at every position of each generated history on a dispatcher carrying all built-in observers and a residual graph updater, and on the environment; each must raise, leave a deep state snapshot unchanged, notify nobody, and the rest of the history must match a twin that never saw the request.",
         "snapshot covers public state of all built-in observers; negative job ids in env.step not judged"),
 "C10": ("offline trace checker over a recorded notification log with unique sequence numbers; in-update probes of dispatcher state",
         "Recording observers log every update/reset with what the dispatcher shows at that moment; histories are interleaved with subscribe/unsubscribe/reset/rejected requests/singleton constructions/create_or_get calls; the recorded log must equal the model's expected log and every probe must show the post-state.",
         "reference model for the post-state; caches warmed before each dispatch"),
 "C11": ("from-scratch recomputation oracle for every feature observer after every dispatch; composite vs concatenation",
         "After every dispatch each built-in feature observer's arrays are compared, for entities with work left, with the documented definition recomputed independently from the instance and history; constructors are exercised on all instance classes; the composite is compared with the column-wise concatenation of its parts.",
         "definitions taken from class docstrings (jsverif/props/c11.py); carve-outs listed in DESIGN section 7"),
 "C12": ("differential twin traces: fresh objects vs reset objects, across observer creation orders and environment episodes",
         "The full observable trace (dispatcher, every built-in observer incl. EST matrix and counters, rewards, history, graph, env observations) of 'h1; reset; h2' is compared with 'fresh; h2' for generated histories and observer creation orders; environment episode k is compared with episode 1.",
         "snapshot covers the public state of built-in observers"),
 "C13": ("conservation checker at every prefix: running reward sums vs reference makespan / idle time",
         "After every dispatch the running sums of MakespanReward and IdleTimeReward are compared with minus the reference makespan / idle time, rewards must be non-positive and one per dispatch; env.step's reward must be the one appended for that step.",
         "reference model idle-time definition"),
 "C14": ("definition oracles for views, round-trip differentials, acyclicity oracle for job sequences with step budget, content fingerprints",
         "Derived views are compared with definitions recomputed from the raw matrices; dict/JSON/Taillard round trips are compared field by field; from_job_sequences/from_dict are compared with the dispatcher-built schedule; permutations are accepted iff an independent DFS finds the precedence graph acyclic (with a dispatch-count budget against hangs); instances are fingerprinted before/after being used by every consumer.",
         "own Taillard writer; own acyclicity test"),
 "C15": ("constructed equal / single-field-different object pairs and triples checked for equivalence-relation laws",
         "Pairs and triples of operations, scheduled operations, schedules and instances are built by copy and single-field mutation; ==, !=, symmetry, transitivity and hash consistency are checked.",
         "content = machines, duration, job structure, start time, machine assignment"),
 "C16": ("reference node/edge-set oracle for the four builders; own longest-path on solved graphs",
         "Node lists and typed edge sets of the four graph builders are compared with sets built independently from the instance matrices; solved disjunctive graphs of dispatcher-built, CP-SAT and hand-delayed schedules are checked for acyclicity and longest path vs makespan.",
         "where a job-chain edge and a disjunctive edge coincide the chain type wins (DiGraph)"),
 "C17": ("sandwich invariant monitor on removed_nodes / graph after every dispatch",
         "After every dispatch with a ResidualGraphUpdater attached: completed ⊆ removed operation nodes ⊆ scheduled, machine/job nodes only when all their operations are scheduled, removals permanent, no edge touches a removed node, everything removed at completion (default options).",
         "reference scheduled/completed sets; positive durations"),
 "C18": ("space-membership and graph-mirror monitors on every reset/step of both environments; legal-action enumeration; config comparison after multi-env resets",
         "Every observation of both environments is checked for membership in the declared space, padding placement and fill values, agreement with the current graph; done/truncated semantics; every legal action is checked for membership in the action space; after each multi-env reset the inner environment's configuration is compared with the constructor's and the instance with the generator's ranges.",
         "gymnasium Space.contains; padding on for membership"),
 "C19": ("shape-predicate monitor over sampled generator parameter space; same-seed twin generators; iteration counts",
         "Generated instances are checked against shape predicates for their parameters across a broadly sampled parameter space; same-seed twin generators must produce identical sequences; iteration must yield exactly iteration_limit instances; names unique.",
         "only satisfiable parameter combinations judged"),
 "C20": ("artist read-back of Gantt charts; plot_function boundary recorder + stamped frames decoded from the written GIF/MP4",
         "Bars are read back from matplotlib artists and compared with the schedule; for animations a wrapper around plot_function records the schedule shown at call k and stamps k as a bar code; the written GIF (and MP4 in thorough) is decoded and frame i must carry code i, for lengths straddling 9/10/11, 99/100/101 (thorough: 999/1000/1001).",
         "matplotlib artist geometry, imageio decoding"),
}

checks, na = [], []
for p in props:
    pid = p['id']
    level = "fault_enumeration" if pid == "C09" else "exploration"
    if os.path.exists(f'/verif/jsverif/props/{pid.lower()}.py'):
        tech, text, note = T[pid]
        checks.append({
            "property_id": pid,
            "quick_cmd": f"./check {pid} --tier quick",
            "thorough_cmd": f"./check {pid} --tier thorough",
            "evidence_file": f"evidence/{pid}.json",
            "replay_cmd_template": f"./check {pid} --replay {{path}}",
            "engine": "jsverif",
            "level_claimed": {"category": level, "text": text, "design_ref": f"DESIGN.md section 3 ({pid})"},
            "level_note": note,
            "technique": tech,
        })
    else:
        na.append({"property_id": pid, "reason": "check not built yet (work in progress; planned, see DESIGN.md section 3)"})
m = {
 "version": 1,
 "setup_cmd": "./setup.sh",
 "hooks": {"guard": "JOB_SHOP_LIB_VERIF",
           "enable": "no source hooks exist in /repo: all monitors are installed by the harness at import time (method wrappers on the real classes, recording DispatcherObserver subclasses, wrapped solver callables, plot_function wrapper)",
           "baseline_off_cmd": "cd /repo && /venv/bin/python -m pytest -ra -q -p no:cacheprovider --timeout=900",
           "source_commits": [], "add_only": True},
 "engines": [{"name": "jsverif", "path": "jsverif/", "serves_properties": [c['property_id'] for c in checks],
              "kind_free_text": "runtime monitors + reference-model oracles over generated workloads executed on the real library (pure Python, /venv interpreter)"}],
 "checks": checks,
 "notes": "Runtime monitoring only. VERIF_SEED and VERIF_TIER honoured. Exit 0 held / 1 VIOLATION / 2 INCONCLUSIVE (monitor not reached). Known findings: known_findings.json. Every run also executes slices of its cases in subprocesses under another PYTHONHASHSEED and under python -O with unusual numpy / matplotlib / warnings settings (recorded in each witness, restored by --replay; JSVERIF_NO_HASHSEED_LANE=1 switches these lanes off).",
 "not_applicable": na,
}
json.dump(m, open('/verif/MANIFEST.json', 'w'), indent=1, ensure_ascii=False)
import jsonschema
jsonschema.validate(m, json.load(open('/root/.vp/MANIFEST.schema.json')))
print("manifest ok:", len(checks), "checks,", len(na), "n/a")
