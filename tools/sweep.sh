#!/bin/sh
# tools/sweep.sh <tier> <seed>... : runs every check for each seed, prints non-held results
tier="$1"; shift
for seed in "$@"; do
  for i in 01 02 03 04 05 06 07 08 09 10 11 12 13 14 15 16 17 18 19 20; do
    out=$(VERIF_SEED=$seed JSVERIF_EVIDENCE_DIR=/tmp/sweep-evidence ./check C$i --tier $tier 2>&1)
    rc=$?
    echo "seed=$seed C$i rc=$rc $(echo "$out" | grep -m1 '^\[C')"
    if [ $rc -ne 0 ]; then echo "$out" | grep -E "VIOLATION|INCONCLUSIVE|kind=" | head -6; fi
  done
done
