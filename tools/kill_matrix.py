#!/venv/bin/python
"""Prints a markdown table from seeded/*/meta.json: which checks fire on which seeded change."""
import json, glob, os, re
rows = []
for d in sorted(glob.glob('/verif/seeded/*/')):
    name = os.path.basename(d.rstrip('/'))
    mp = os.path.join(d, 'meta.json')
    if not os.path.exists(mp):
        continue
    m = json.load(open(mp))
    own = m['property']
    # the latest evaluation of the own check, and the latest --all evaluation if any
    hist = m.get('history', [])
    own_latest = None
    all_latest = None
    for h in hist:
        cs = h.get('checks') or {}
        if own in cs:
            own_latest = cs[own]
        if len(cs) > 1:
            all_latest = cs
    others = sorted(c for c, v in (all_latest or {}).items() if v['exit'] == 1 and c != own)
    note = ''
    np_ = os.path.join(d, 'notes.md')
    if os.path.exists(np_):
        txt = open(np_).read()
        first = [l for l in txt.splitlines() if l.strip()]
        note = re.sub(r'^#+\s*', '', first[0])[:110] if first else ''
    kinds = ', '.join((own_latest or {}).get('kinds', [])[:2])
    dp = os.path.join(d, 'DISPOSITION.md')
    fires = 'yes' if (own_latest or {}).get('exit') == 1 else 'NO'
    if fires == 'NO' and os.path.exists(dp):
        fires = 'no - ' + open(dp).read().strip().split(':')[0]
        kinds = open(dp).read().strip()[:160]
    rows.append((name, note, fires, kinds, ' '.join(others) or ('-' if all_latest else 'n/r')))
print('| seeded change | what it is | own check fires (quick) | violation kinds | other checks that also fire |')
print('|---|---|---|---|---|')
for r in rows:
    print('| ' + ' | '.join(r) + ' |')
print(f'\n{len(rows)} seeded changes; own check fires on {sum(1 for r in rows if r[2] == "yes")}; '
      f'not claimed by decision (see DISPOSITION.md in the directory): {sum(1 for r in rows if r[2].startswith("no - "))}.')
