"""C16 - graph encodings are faithful to the instance and the schedule."""

from __future__ import annotations

import itertools
import random

from .. import gen
from ..drive import Run
from ..ref import Ref

ID = "C16"
LEVEL = "exploration"
RULE = (
    "for seeded instances of all classes each of the four builders' node list "
    "(types, count, order, operation node id == operation id, payload) and exact "
    "typed edge set are compared with sets built independently from the instance "
    "matrices; solved disjunctive graphs of dispatcher-built schedules (random "
    "histories), CP-SAT schedules and hand-delayed feasible schedules (positive "
    "durations) are checked for acyclicity and own longest duration-weighted "
    "source->sink path <= makespan (== for dispatcher-built). distinct = (builder, "
    "instance) / (instance, schedule); non-trivial = two operations share a machine"
)
ANCHORS = [
    "job_shop_lib.graphs._job_shop_graph:JobShopGraph.add_operation_nodes",
    "job_shop_lib.graphs._job_shop_graph:JobShopGraph.add_node",
    "job_shop_lib.graphs._build_disjunctive_graph:build_disjunctive_graph",
    "job_shop_lib.graphs._build_disjunctive_graph:build_solved_disjunctive_graph",
    "job_shop_lib.graphs._build_disjunctive_graph:add_disjunctive_edges",
    "job_shop_lib.graphs._build_disjunctive_graph:add_conjunctive_edges",
    "job_shop_lib.graphs._build_disjunctive_graph:add_source_sink_edges",
    "job_shop_lib.graphs._build_agent_task_graph:build_agent_task_graph",
    "job_shop_lib.graphs._build_agent_task_graph:build_complete_agent_task_graph",
    "job_shop_lib.graphs._build_agent_task_graph:build_agent_task_graph_with_jobs",
]
ASSUMPTIONS = [
    "where a job-chain edge and a disjunctive edge coincide the chain (conjunctive) type wins - "
    "that is all a DiGraph can express",
    "agent-task edges carry no type attribute",
]
REQUIRED_COUNTERS = {"builder_checks": 400, "solved_graphs": 100, "solved_dispatcher_built": 60,
                     "solved_delayed": 30, "solved_cpsat": 5}
WORKERS = {"quick": 1, "thorough": 14}


_PREVIOUS = []


def gen_cases(ctx):
    rng = ctx.rng
    for i in range(ctx.scale(5000, 720000)):
        inst = gen.gen_instance(rng, None, max_jobs=rng.choice([2, 3, 4, 5]), max_machines=rng.choice([2, 3, 4, 5]))
        yield {"kind": "builders", "instance": inst, "seed": rng.randrange(2**31)}
    for i, n in enumerate(["ft06", "la01"] if ctx.tier == "quick" else
                          ["ft06", "ft10", "la01", "la06", "la16", "orb01", "abz5", "swv01"]):
        if i % ctx.nshards == ctx.shard:
            yield {"kind": "benchmark", "name": n, "seed": i, "instance": {"cls": "benchmark"}}
    for i in range(ctx.scale(2500, 360000)):
        inst = gen.gen_instance(rng, rng.choice(gen.POSITIVE_CLASSES), max_jobs=rng.choice([2, 3, 4, 5]),
                                max_machines=rng.choice([2, 3, 4]))
        yield {"kind": "solved", "instance": inst, "seed": rng.randrange(2**31),
               "cpsat": i % 25 == 0}


def spec(r: Ref, builder):
    """(node specs, edge dict (u,v)->type name or None)."""
    N, M, J = r.num_ops, r.num_machines, r.num_jobs
    nodes = [("OPERATION", o) for o in range(N)]
    edges = {}

    def both(a, b, t=None):
        edges[(a, b)] = t
        edges[(b, a)] = t

    if builder == "disjunctive":
        nodes += [("SOURCE", None), ("SINK", None)]
        src, snk = N, N + 1
        for a, b in itertools.combinations(range(N), 2):
            if set(r.op_machines[a]) & set(r.op_machines[b]):
                both(a, b, "DISJUNCTIVE")
        for ids in r.job_ops:
            for a, b in zip(ids, ids[1:]):
                edges[(a, b)] = "CONJUNCTIVE"
            edges[(src, ids[0])] = "CONJUNCTIVE"
            edges[(ids[-1], snk)] = "CONJUNCTIVE"
        return nodes, edges
    nodes += [("MACHINE", m) for m in range(M)]
    mnode = lambda m: N + m
    for o in range(N):
        for m in r.op_machines[o]:
            both(o, mnode(m))
    if builder == "agent_task":
        for a, b in itertools.combinations(range(M), 2):
            both(mnode(a), mnode(b))
        for ids in r.job_ops:
            for a, b in itertools.combinations(ids, 2):
                both(a, b)
        return nodes, edges
    nodes += [("JOB", j) for j in range(J)]
    jnode = lambda j: N + M + j
    for o in range(N):
        both(o, jnode(r.op_job[o]))
    if builder == "with_jobs":
        for a, b in itertools.combinations(range(M), 2):
            both(mnode(a), mnode(b))
        for a, b in itertools.combinations(range(J), 2):
            both(jnode(a), jnode(b))
        return nodes, edges
    nodes += [("GLOBAL", None)]
    g = N + M + J
    for m in range(M):
        both(g, mnode(m))
    for j in range(J):
        both(g, jnode(j))
    return nodes, edges


def user_assembled_graph(ctx, r, instance, rng):
    """A user's own builder: the complete agent-task graph assembled from the library's public
    building blocks, with the job nodes (and the machine nodes) added in the user's own order.
    Judged by payload: which operation / machine / job / global node is linked to which."""
    from job_shop_lib.graphs import (JobShopGraph, Node, NodeType, add_global_node, add_job_global_edges,
                                     add_machine_global_edges, add_operation_job_edges,
                                     add_operation_machine_edges)
    g = JobShopGraph(instance)
    m_order = list(range(instance.num_machines)); rng.shuffle(m_order)
    for m in m_order:
        g.add_node(Node(node_type=NodeType.MACHINE, machine_id=m))
    add_operation_machine_edges(g)
    j_order = list(range(instance.num_jobs)); rng.shuffle(j_order)
    for j in j_order:
        g.add_node(Node(node_type=NodeType.JOB, job_id=j))
    add_operation_job_edges(g)
    add_global_node(g)
    add_machine_global_edges(g)
    add_job_global_edges(g)

    def payload(node):
        t = node.node_type.name
        return (t, node.operation.operation_id if t == "OPERATION" else
                node.machine_id if t == "MACHINE" else node.job_id if t == "JOB" else None)
    got = {(payload(g.nodes[u]), payload(g.nodes[v])) for u, v in g.graph.edges()}
    wn, we = spec(r, "complete")
    want = {(wn[u], wn[v]) for (u, v) in we
            if not (wn[u][0] == wn[v][0] and wn[u][0] in ("MACHINE", "JOB", "OPERATION"))}
    got = {e for e in got if not (e[0][0] == e[1][0])}
    ctx.count("user_assembled_graphs_checked")
    if got != want:
        ctx.violation("c16_user_assembled_graph_links_wrong_nodes",
                      {"machine_node_order": m_order, "job_node_order": j_order,
                       "missing": sorted(map(str, want - got))[:6], "unexpected": sorted(map(str, got - want))[:6]})


def builders():
    from job_shop_lib.graphs import (build_agent_task_graph, build_agent_task_graph_with_jobs,
                                     build_complete_agent_task_graph, build_disjunctive_graph)
    return {"disjunctive": build_disjunctive_graph, "agent_task": build_agent_task_graph,
            "with_jobs": build_agent_task_graph_with_jobs, "complete": build_complete_agent_task_graph}


def check_graph(ctx, r, instance, name, g, want_nodes, want_edges, where):
    ops = [o for job in instance.jobs for o in job]
    got_nodes = []
    for idx, node in enumerate(g.nodes):
        t = node.node_type.name
        payload = None
        ok_id = node.node_id == idx
        if t == "OPERATION":
            payload = node.operation.operation_id
            ok_id &= node.operation is ops[payload] if 0 <= payload < len(ops) else False
        elif t == "MACHINE":
            payload = node.machine_id
        elif t == "JOB":
            payload = node.job_id
        got_nodes.append((t, payload))
        if not ok_id or g.graph.nodes[idx].get("node") is not node:
            ctx.violation("c16_node_id_or_payload", {"builder": name, "index": idx, "where": where})
    w = {"builder": name, "where": where}
    if got_nodes != want_nodes:
        ctx.violation("c16_node_list_differs", dict(w, got=got_nodes, want=want_nodes))
    if sorted(g.graph.nodes()) != list(range(len(want_nodes))) or any(g.removed_nodes):
        ctx.violation("c16_networkx_nodes_differ", dict(w, got=sorted(g.graph.nodes())))
    got_edges = {}
    for u, v, data in g.graph.edges(data=True):
        t = data.get("type")
        got_edges[(u, v)] = None if t is None else t.name
    if got_edges != want_edges:
        missing = sorted(set(want_edges) - set(got_edges))[:6]
        extra = sorted(set(got_edges) - set(want_edges))[:6]
        mistyped = [(e, got_edges[e], want_edges[e]) for e in want_edges
                    if e in got_edges and got_edges[e] != want_edges[e]][:6]
        ctx.violation("c16_edge_set_differs",
                      dict(w, missing=missing, extra=extra, mistyped=mistyped))
    # by-type / by-job / by-machine indexes
    bj = [[n.operation.operation_id for n in lst] for lst in g.nodes_by_job]
    bm = [[n.operation.operation_id for n in lst] for lst in g.nodes_by_machine]
    if bj != r.job_ops or bm != [[o for o in range(r.num_ops) if m in r.op_machines[o]]
                                 for m in range(r.num_machines)]:
        ctx.violation("c16_node_indexes_differ", dict(w, by_job=bj, by_machine=bm))


def longest_path(g, r, n_ops):
    """Own Kahn topological order + DP on node weights (op durations)."""
    nodes = list(g.graph.nodes())
    succ = {n: [] for n in nodes}
    indeg = {n: 0 for n in nodes}
    for u, v in g.graph.edges():
        succ[u].append(v)
        indeg[v] += 1
    wt = lambda n: r.op_dur[n] if n < n_ops else 0
    dist = {n: wt(n) for n in nodes}
    stack = [n for n in nodes if indeg[n] == 0]
    seen = 0
    while stack:
        u = stack.pop()
        seen += 1
        for v in succ[u]:
            dist[v] = max(dist[v], dist[u] + wt(v))
            indeg[v] -= 1
            if indeg[v] == 0:
                stack.append(v)
    if seen != len(nodes):
        return None
    return dist[n_ops + 1]  # sink


def check_solved(ctx, r, schedule, makespan, built_by_dispatcher, where):
    from job_shop_lib.graphs import build_solved_disjunctive_graph
    g = build_solved_disjunctive_graph(schedule)
    ctx.count("solved_graphs")
    want_nodes = [("OPERATION", o) for o in range(r.num_ops)] + [("SOURCE", None), ("SINK", None)]
    got_nodes = [(n.node_type.name, n.operation.operation_id if n.node_type.name == "OPERATION" else None)
                 for n in g.nodes]
    if got_nodes != want_nodes:
        ctx.violation("c16_solved_node_list", {"where": where})
        return
    # expected edges: chain + source/sink + consecutive machine order
    want = {}
    for lst in schedule.schedule:
        ids = [so.operation.operation_id for so in lst]
        for a, b in zip(ids, ids[1:]):
            want[(a, b)] = "DISJUNCTIVE"
    for ids in r.job_ops:
        for a, b in zip(ids, ids[1:]):
            want[(a, b)] = "CONJUNCTIVE"
        want[(r.num_ops, ids[0])] = "CONJUNCTIVE"
        want[(ids[-1], r.num_ops + 1)] = "CONJUNCTIVE"
    got = {(u, v): d.get("type").name if d.get("type") is not None else None
           for u, v, d in g.graph.edges(data=True)}
    if set(got) != set(want):
        ctx.violation("c16_solved_edge_set", {"where": where, "missing": sorted(set(want) - set(got))[:6],
                                              "extra": sorted(set(got) - set(want))[:6]})
    lp = longest_path(g, r, r.num_ops)
    w = {"where": where, "longest_path": lp, "makespan": makespan,
         "schedule": [[(so.operation.operation_id, so.start_time) for so in lst] for lst in schedule.schedule]}
    if lp is None:
        ctx.violation("c16_solved_graph_cyclic", w)
    elif lp > makespan:
        ctx.violation("c16_longest_path_exceeds_makespan", w)
    elif built_by_dispatcher and lp != makespan:
        ctx.violation("c16_longest_path_differs_from_makespan", w)


def run_case(ctx, case):
    rng = random.Random(case["seed"])
    if case["kind"] == "benchmark":
        from job_shop_lib.benchmarking import load_benchmark_instance
        from job_shop_lib.dispatching.rules import DispatchingRuleSolver
        from ._dispatch_workload import inst_from_library
        instance = load_benchmark_instance(case["name"])
        inst = inst_from_library(instance)
        r = Ref(inst)
        for name, b in builders().items():
            wn, we = spec(r, name)
            check_graph(ctx, r, instance, name, b(instance), wn, we, "benchmark " + case["name"])
            ctx.count("builder_checks")
        S = DispatchingRuleSolver("most_work_remaining").solve(instance)
        check_solved(ctx, r, S, S.makespan(), True, "benchmark rule schedule")
        ctx.count("benchmark_instances")
        ctx.note_case(case, True, fingerprint="bench:" + case["name"])
        return
    inst = case["instance"]
    r = Ref(inst)
    if case["kind"] == "builders":
        instance = gen.build(inst)
        if case["seed"] % 5 == 3:
            user_assembled_graph(ctx, r, instance, random.Random(case["seed"]))
        built = []
        for name, b in builders().items():
            g = b(instance)
            wn, we = spec(r, name)
            check_graph(ctx, r, instance, name, g, wn, we, "built")
            if case["seed"] % 4 == 0:
                # graphs are copied (copy.deepcopy) by their users - the environments keep an
                # initial copy and restore it at every reset: a copy is the same graph
                import copy
                g2 = copy.deepcopy(g)
                check_graph(ctx, r, g2.instance, name, g2, wn, we, "deep copy of a built graph")
                ctx.count("deep_copied_graphs_checked")
            if case["seed"] % 80 == 1 and name == "disjunctive" and r.num_ops <= 12 and not r.flexible:
                # the library's own graph plot is handed the graph (all ways of drawing the
                # disjunctive edges): the graph is the same afterwards
                import matplotlib.pyplot as plt
                from job_shop_lib.visualization import plot_disjunctive_graph
                for mode in (True, "single_edge", False):
                    fig, _ = plot_disjunctive_graph(g, draw_disjunctive_edges=mode)
                    plt.close(fig)
                check_graph(ctx, r, instance, name, g, wn, we, "after plot_disjunctive_graph")
                ctx.count("graphs_rechecked_after_plotting")
            built.append((r, instance, name, g, wn, we))
            ctx.count("builder_checks")
            ctx.distinct.add(f"{name}:{hash(gen.fingerprint(inst))}") if gen.competing(inst) else None
        # graphs of the previous instance must not have been touched by building these
        for (r0, i0, n0, g0, wn0, we0) in _PREVIOUS:
            check_graph(ctx, r0, i0, n0, g0, wn0, we0, "re-checked after other graphs were built")
            ctx.count("graphs_rechecked_later")
        _PREVIOUS[:] = built
        ctx.evaluations += 1
        if len(ctx.samples) < 2:
            ctx.samples.append({"instance": inst, "builders": list(builders())})
        ctx.count("class_" + inst["cls"])
        return
    from job_shop_lib import Schedule, ScheduledOperation
    # sometimes the dispatcher carries a user-written filter and operations outside the filter's
    # answer are dispatched as well (any ready operation may be dispatched)
    fs = {"names": [rng.choice(gen.CUSTOM_FILTERS)], "form": "custom"} if case["seed"] % 5 == 1 else None
    run = Run(inst, fs)
    if fs:
        ctx.count("solved_with_a_user_filter_on_the_dispatcher")
    if case["seed"] % 3 == 0:
        # the dispatcher was used before: an abandoned episode with clock / start-time queries
        for _ in range(rng.randint(1, run.r.num_ops)):
            o, m = run.choose(rng, "random_ready")
            run.dispatch(o, m)
            run.d.current_time()
            for op in run.d.raw_ready_operations():
                run.d.earliest_start_time(op)
        run.d.reset(); run.r.reset()
        ctx.count("solved_on_a_reused_dispatcher")
    while not run.done():
        o, m = run.choose(rng, rng.choice(["random_ready", "latest_start", "one_job_first", "round_robin"]))
        run.dispatch(o, m)
    S = run.d.schedule
    where = "dispatcher-built"
    if case["seed"] % 20 == 7 and inst.get("cls") != "fractional" and run.r.num_ops <= 40:
        # the schedule was looked at (Gantt chart) before it is encoded
        import matplotlib.pyplot as plt
        from job_shop_lib.visualization import plot_gantt_chart
        mk_before = run.r.makespan()
        plot_gantt_chart(S)
        plt.close("all")
        where = "dispatcher-built, after a Gantt chart of it was drawn"
        ctx.count("solved_after_the_schedule_was_drawn")
        check_solved(ctx, r, S, mk_before, True, where)
    else:
        check_solved(ctx, r, S, S.makespan(), True, where)
    ctx.count("solved_dispatcher_built")
    # hand-delayed but feasible schedule: every start shifted by a non-decreasing amount in time
    shift = rng.randint(1, 5)
    extra = rng.randint(0, 3)
    mk = run.r.makespan()
    lists = []
    for lst in S.schedule:
        new = []
        for so in lst:
            # ops that start late get an additional delay (keeps all orders and gaps feasible)
            delta = shift + (extra if so.start_time * 2 >= mk else 0)
            new.append(ScheduledOperation(so.operation, so.start_time + delta, so.machine_id))
        lists.append(new)
    D = Schedule(run.instance, lists)
    from ..ref import feasibility_errors, schedule_triples
    if not feasibility_errors(r, schedule_triples(D), True):
        check_solved(ctx, r, D, D.makespan(), False, "hand-delayed")
        ctx.count("solved_delayed")
        if not r.flexible and case["seed"] % 3 == 1:
            # the delayed schedule is stored with its makespan in the metadata (as solvers do) and
            # restored from the dictionary form, which re-dispatches it: the graph of the restored
            # schedule is judged against the restored content
            D.metadata["makespan"] = D.makespan()
            RT = Schedule.from_dict(**D.to_dict())
            content_mk = max(so.end_time for lst in RT.schedule for so in lst)
            ctx.count("solved_after_a_dictionary_round_trip_with_recorded_makespan")
            if RT.makespan() != content_mk:
                ctx.violation("c16_makespan_of_restored_schedule_differs_from_its_content",
                              {"makespan()": RT.makespan(), "latest_end": content_mk,
                               "recorded_in_metadata": RT.metadata.get("makespan")})
            else:
                check_solved(ctx, r, RT, content_mk, False, "restored from the dictionary form of a delayed schedule")
    if case.get("cpsat") and not r.flexible:
        from job_shop_lib.constraint_programming import ORToolsSolver
        try:
            C = ORToolsSolver(max_time_in_seconds=10).solve(run.instance)
            check_solved(ctx, r, C, C.makespan(), False, "cp-sat")
            ctx.count("solved_cpsat")
        except Exception as e:  # C03's business
            ctx.count("cpsat_failed_" + type(e).__name__)
    ctx.note_case(case, gen.competing(inst),
                  fingerprint=str(hash((gen.fingerprint(inst), tuple(run.r.history)))))
    ctx.count("class_" + inst["cls"])
