"""C03 - the CP-SAT solver returns feasible, truly optimal schedules."""

from __future__ import annotations

import math
import random

from .. import gen

gen.WIDE_RATE = 0   # wide (~100 operation) instances: too costly here / not needed
from ..ref import Ref, feasibility_errors, lower_bounds, optimum, schedule_triples

ID = "C03"
LEVEL = "exploration"
RULE = (
    "the real ORToolsSolver is run on seeded non-flexible instances (classic, "
    "irregular, recirculation incl. the same machine twice in a row, zero durations "
    "incl. ties between a zero-length operation and its neighbour, unused machine "
    "ids, degenerate sizes, one very long job) and on benchmark instances; each "
    "result is judged by an independent feasibility/completeness checker (job "
    "precedence included), metadata.makespan == schedule.makespan() == max end, "
    "status/solved_by values, and - when status is optimal - equality with an "
    "independent exhaustive optimum (<= 10 operations), >= lower bounds, <= every "
    "dispatching-rule makespan, == recorded benchmark optimum; solver objects are "
    "reused over random sequences of instances and compared with fresh solvers; "
    "tiny time limits may only yield a feasible schedule or NoSolutionFoundError. "
    "distinct = distinct instances; non-trivial = >= 2 jobs compete for a machine"
)
ANCHORS = [
    "job_shop_lib.constraint_programming._ortools_solver:ORToolsSolver.solve",
    "job_shop_lib.constraint_programming._ortools_solver:ORToolsSolver._initialize_model",
    "job_shop_lib.constraint_programming._ortools_solver:ORToolsSolver._create_schedule",
    "job_shop_lib.constraint_programming._ortools_solver:ORToolsSolver._create_variables",
    "job_shop_lib.constraint_programming._ortools_solver:ORToolsSolver._add_job_constraints",
    "job_shop_lib.constraint_programming._ortools_solver:ORToolsSolver._add_machine_constraints",
    "job_shop_lib.constraint_programming._ortools_solver:ORToolsSolver._set_objective",
    "job_shop_lib.constraint_programming._ortools_solver:ORToolsSolver.__call__",
]
ASSUMPTIONS = [
    "OR-Tools CP-SAT is trusted to solve the model it is given; what is monitored is the "
    "library's model construction, result reconstruction and metadata",
    "wall-clock limits only select which oracle applies (optimal vs feasible), never a verdict",
]
REQUIRED_COUNTERS = {"solves": 150, "optimal_vs_reference_optimum": 100, "zero_duration_instances": 20,
                     "reused_solver_solves": 30, "recirc_instances": 20}
WORKERS = {"quick": 4, "thorough": 14}
HARD_TIMEOUT_S = {"quick": 900, "thorough": 7200}
CLASSES = ["classic", "irregular", "recirc", "zero_nf", "zero_nf", "gap", "degenerate", "longjob", "huge_nf"]
BENCH_QUICK = ["ft06", "la01", "la02"]
BENCH_THOROUGH = ["ft06", "ft10", "la01", "la02", "la03", "la04", "la05", "la06", "la07", "la08",
                  "la09", "la10", "la11", "la12", "la13", "la14", "la15", "la16", "la17", "la18",
                  "la19", "la20", "orb01", "orb02", "abz5", "abz6"]


def gen_inst(rng, big=False):
    cls = rng.choice(CLASSES)
    if cls == "longjob":
        inst = gen.gen_instance(rng, "classic", max_jobs=3, max_machines=3)
        j = rng.randrange(len(inst["durations"]))
        inst["durations"][j] = [d * 40 for d in inst["durations"][j]]
        inst["cls"] = "longjob"
    else:
        inst = gen.gen_instance(rng, cls, max_jobs=rng.choice([2, 3, 4] + ([6] if big else [])),
                                max_machines=rng.choice([2, 3, 4]))
    if not big:
        gen._trim(inst, 10)
    return inst


def gen_cases(ctx):
    rng = ctx.rng
    for i in range(ctx.scale(1500, 64000)):
        if i % 8 == 7:
            seq = [gen_inst(rng) for _ in range(rng.randint(2, 4))]
            if i % 16 == 15:
                # same name, same shape, other content: later instances are variants of the first
                base = seq[0]
                seq = [base] + [
                    {"cls": base["cls"], "machines": [[list(m) for m in j] for j in base["machines"]],
                     "durations": [[rng.randint(1, 9) for _ in j] for j in base["durations"]]}
                    for _ in range(rng.randint(1, 3))]
            yield {"kind": "reuse", "instances": seq, "seed": rng.randrange(2**31),
                   "instance": seq[-1], "call": rng.random() < 0.5}
        else:
            yield {"kind": "solve", "instance": gen_inst(rng, big=i % 10 == 0),
                   "seed": rng.randrange(2**31), "call": rng.random() < 0.3,
                   "tiny_limit": i % 25 == 24}
    # larger random instances under a short time limit: the solver usually stops with
    # status "feasible", where metadata and schedule must still agree
    if ctx.shard == 0:
        # a solver with a time limit that is created, left alone for longer than the limit and
        # only then asked to solve a small instance (and again after another pause)
        yield {"kind": "idle_solver", "instance": gen.gen_instance(rng, "classic", max_jobs=3, max_machines=3),
               "seed": rng.randrange(2**31), "limit": 1.0}
    for i in range(ctx.scale(4, 240)):
        inst = gen.gen_instance(rng, "classic", max_jobs=1, max_machines=1)
        nj, nm = rng.choice([(15, 10), (20, 10), (20, 15)])
        inst = {"cls": "large", "durations": [], "machines": []}
        for _ in range(nj):
            order = list(range(nm)); rng.shuffle(order)
            inst["machines"].append([[m] for m in order])
            inst["durations"].append([rng.randint(1, 99) for _ in order])
        yield {"kind": "limited", "instance": inst, "seed": rng.randrange(2**31),
               "limit": rng.choice([0.3, 0.6])}
    names = BENCH_QUICK if ctx.tier == "quick" else BENCH_THOROUGH
    for i, n in enumerate(names):
        if i % ctx.nshards == ctx.shard:
            yield {"kind": "benchmark", "name": n, "seed": 0, "instance": {"cls": "benchmark"},
                   "limit": 20 if ctx.tier == "quick" else 30}


def judge(ctx, inst, instance, S, where, expect_optimal_oracle=True, time_limited=False):
    r = Ref(inst)
    tri = schedule_triples(S)
    w = {"where": where, "schedule": tri if r.num_ops <= 40 else "large", "metadata": dict(S.metadata)}
    errs = feasibility_errors(r, tri, require_complete=True)
    if errs:
        ctx.violation("c03_schedule_infeasible_or_incomplete", dict(w, errors=errs[:6]))
        return None
    if S.instance is not instance:
        ctx.violation("c03_schedule_for_other_instance", w)
    md = S.metadata
    max_end = max(s + r.op_dur[o] for lst in tri for o, s, _ in lst)
    if md.get("makespan") != S.makespan() or S.makespan() != max_end:
        ctx.violation("c03_makespan_metadata_mismatch",
                      dict(w, meta=md.get("makespan"), schedule=S.makespan(), max_end=max_end))
    if md.get("status") not in ("optimal", "feasible") or md.get("solved_by") != "ORToolsSolver":
        ctx.violation("c03_status_or_solved_by", w)
    et = md.get("elapsed_time")
    if not isinstance(et, float) or not math.isfinite(et) or et < 0:
        ctx.violation("c03_elapsed_time", w)
    mk = max_end
    lb = lower_bounds(inst)
    if mk < lb:
        ctx.violation("c03_makespan_below_lower_bound", dict(w, lower_bound=lb))
    if md.get("status") == "optimal":
        if expect_optimal_oracle and r.num_ops <= 10:
            opt, _ = optimum(inst)
            if opt is not None:
                ctx.count("optimal_vs_reference_optimum")
                if opt != mk:
                    ctx.violation("c03_reported_optimal_is_not_optimal", dict(w, reference_optimum=opt))
        # never above any dispatching-rule result
        from job_shop_lib.dispatching.rules import DispatchingRuleSolver
        for rule in ("most_work_remaining", "shortest_processing_time"):
            ub = DispatchingRuleSolver(rule).solve(instance).makespan()
            ctx.count("rule_upper_bound_checks")
            if mk > ub:
                ctx.violation("c03_optimal_above_dispatching_rule", dict(w, rule=rule, rule_makespan=ub))
    elif not time_limited:
        ctx.violation("c03_not_optimal_without_time_limit", w)
    return mk


def run_case(ctx, case):
    from job_shop_lib.constraint_programming import ORToolsSolver
    from job_shop_lib.exceptions import NoSolutionFoundError

    rng = random.Random(case["seed"])
    kind = case["kind"]
    if kind == "solve":
        inst = case["instance"]
        instance = gen.build(inst)
        if case["seed"] % 5 == 3:
            # the instance went through a pickle / a deep copy before it reached the solver (a worker
            # process, a cache)
            import copy
            import pickle
            instance = pickle.loads(pickle.dumps(instance)) if case["seed"] % 2 else copy.deepcopy(instance)
            ctx.count("instances_restored_from_a_pickle_or_deep_copy")
        elif case["seed"] % 5 == 4:
            # operations of a user's own subclass (a task label; several tasks share a label)
            from job_shop_lib import JobShopInstance, Operation

            class Task(Operation):
                __slots__ = ("label",)

                def __init__(self, machines, duration, label):
                    super().__init__(machines, duration)
                    self.label = label

                def __repr__(self):
                    return f"Task({self.label})"
            instance = JobShopInstance(
                [[Task(list(ms), dd, "drill" if (j + p) % 2 else "mill")
                  for p, (ms, dd) in enumerate(zip(mj, dj))]
                 for j, (mj, dj) in enumerate(zip(inst["machines"], inst["durations"]))], name="tasks")
            ctx.count("instances_made_of_a_user_subclass_of_operation")
        if case["seed"] % 6 == 0:
            # instances carry their own metadata (benchmark files do: recorded optimum, bounds ...)
            # - also under names the solver uses for its own report
            instance.metadata.update({"optimum": 1, "makespan": 10**6, "status": "recorded",
                                      "solved_by": "someone else", "lower_bound": 0})
            ctx.count("instances_with_colliding_metadata_keys")
        if case.get("tiny_limit"):
            solver = ORToolsSolver(max_time_in_seconds=1e-4)
            ctx.count("tiny_limit_solves")
            try:
                S = solver(instance) if case["call"] else solver.solve(instance)
            except NoSolutionFoundError:
                ctx.count("no_solution_under_tiny_limit")
                S = None
            if S is not None:
                judge(ctx, inst, instance, S, "tiny time limit", time_limited=True)
        else:
            solver = ORToolsSolver()
            try:
                S = solver(instance) if case["call"] else solver.solve(instance)
            except NoSolutionFoundError as e:
                ctx.violation("c03_no_solution_without_time_limit", {"error": str(e)[:200]})
                return
            except Exception as e:
                ctx.violation("c03_solver_raised", {"error": repr(e)[:300]})
                return
            judge(ctx, inst, instance, S, "call" if case["call"] else "solve")
        ctx.count("solves")
        ctx.count("class_" + inst["cls"])
        if gen.has_zero(inst):
            ctx.count("zero_duration_instances")
        if inst["cls"] == "recirc":
            ctx.count("recirc_instances")
        ctx.note_case(case, gen.competing(inst), fingerprint=str(hash(gen.fingerprint(inst))))
    elif kind == "idle_solver":
        import time as _t
        inst = case["instance"]
        gen._trim(inst, 9)
        instance = gen.build(inst)
        solver = ORToolsSolver(max_time_in_seconds=case["limit"])
        for k in range(2):
            _t.sleep(case["limit"] + 0.2)
            try:
                S = solver.solve(instance)
            except Exception as e:
                ctx.violation("c03_no_solution_without_time_limit",
                              {"error": repr(e)[:200], "note": f"solver idle for longer than its {case['limit']} s limit "
                               f"before solve number {k + 1}; the instance has {gen.num_ops(inst)} operations"})
                return
            judge(ctx, inst, instance, S, "solver left idle for longer than its time limit", time_limited=True)
        ctx.count("solves_after_an_idle_period_longer_than_the_limit", 2)
        ctx.count("solves", 2)
        ctx.note_case(case, True, fingerprint="idle")
    elif kind == "limited":
        inst = case["instance"]
        instance = gen.build(inst)
        try:
            S = ORToolsSolver(max_time_in_seconds=case["limit"]).solve(instance)
        except NoSolutionFoundError:
            ctx.count("no_solution_under_short_limit")
            ctx.note_case(case, True, fingerprint=str(hash(gen.fingerprint(inst))))
            return
        except Exception as e:
            ctx.violation("c03_solver_raised", {"error": repr(e)[:300]})
            return
        judge(ctx, inst, instance, S, f"large instance, {case['limit']} s limit",
              expect_optimal_oracle=False, time_limited=True)
        ctx.count("solves")
        ctx.count("status_" + str(S.metadata.get("status")))
        ctx.note_case(case, True, fingerprint=str(hash(gen.fingerprint(inst))))
    elif kind == "reuse":
        shared = ORToolsSolver()
        if case["seed"] % 3 == 0:
            # the public limit attribute is changed between solves of one solver object
            shared = ORToolsSolver(max_time_in_seconds=1e-4)
            try:
                shared.solve(gen.build(case["instances"][0]))
            except NoSolutionFoundError:
                pass
            shared.max_time_in_seconds = None
            ctx.count("limit_removed_between_solves")
        earlier = []
        short_lived = case["seed"] % 4 == 2
        if short_lived:
            # a long-lived solver object fed short-lived instances: nothing of an earlier solve is
            # kept by the caller (freed objects make room for the next instance)
            ctx.count("long_lived_solver_short_lived_instances")
            seq = list(case["instances"]) * 3
            for k, inst in enumerate(seq):
                instance = gen.build(inst)
                try:
                    S1 = shared.solve(instance)
                except Exception as e:
                    ctx.violation("c03_solver_raised", {"error": repr(e)[:300], "position": k, "instance": inst,
                                                        "note": "solver object reused, earlier instances dropped"})
                    return
                ctx.count("reused_solver_solves"); ctx.count("solves")
                judge(ctx, inst, instance, S1, f"long-lived solver, {k} earlier (dropped) instances",
                      expect_optimal_oracle=k < len(case["instances"]))
                del S1, instance
            ctx.note_case(case, True, fingerprint=str(hash(tuple(gen.fingerprint(i) for i in case["instances"]))))
            return
        for k, inst in enumerate(case["instances"]):
            instance = gen.build(inst)
            try:
                S1 = shared(instance) if case.get("call") else shared.solve(instance)
                S2 = ORToolsSolver().solve(instance)
            except NoSolutionFoundError as e:
                ctx.violation("c03_no_solution_without_time_limit",
                              {"error": str(e)[:200], "position": k, "instance": inst,
                               "note": "solver object reused; no limit set at this point"})
                return
            except Exception as e:
                ctx.violation("c03_solver_raised", {"error": repr(e)[:300], "position": k,
                                                    "instance": inst})
                return
            ctx.count("reused_solver_solves")
            ctx.count("solves")
            a = judge(ctx, inst, instance, S1, f"reused solver, {k} earlier solves")
            b = judge(ctx, inst, instance, S2, "fresh solver", expect_optimal_oracle=False)
            if a is not None and b is not None and a != b \
                    and S1.metadata["status"] == S2.metadata["status"] == "optimal":
                ctx.violation("c03_result_depends_on_solver_history",
                              {"reused": a, "fresh": b, "position": k})
            if gen.has_zero(inst):
                ctx.count("zero_duration_instances")
            earlier.append((k, S1, dict(S1.metadata), schedule_triples(S1)))
        # what the solver object solved later must not reach back into earlier results
        for k, S_old, meta_then, triples_then in earlier[:-1]:
            ctx.count("earlier_results_rechecked")
            if S_old.metadata.get("makespan") != S_old.makespan() or schedule_triples(S_old) != triples_then \
                    or S_old.metadata.get("status") != meta_then.get("status"):
                ctx.violation("c03_earlier_result_changed_by_a_later_solve",
                              {"position": k, "metadata_then": {x: meta_then.get(x) for x in ("makespan", "status")},
                               "metadata_now": {x: S_old.metadata.get(x) for x in ("makespan", "status")},
                               "schedule_makespan": S_old.makespan()})
        ctx.note_case(case, True, fingerprint=str(hash(tuple(gen.fingerprint(i) for i in case["instances"]))))
    else:
        from job_shop_lib.benchmarking import load_benchmark_instance
        from . import _dispatch_workload as W
        instance = load_benchmark_instance(case["name"])
        inst = W.inst_from_library(instance)
        try:
            S = ORToolsSolver(max_time_in_seconds=case["limit"]).solve(instance)
        except NoSolutionFoundError:
            ctx.count("benchmark_no_solution_within_limit")
            ctx.note_case(case, True)
            return
        mk = judge(ctx, inst, instance, S, "benchmark " + case["name"], time_limited=True)
        ctx.count("benchmark_solves")
        ctx.count("solves")
        md = instance.metadata
        opt, lb, ub = md.get("optimum"), md.get("lower_bound"), md.get("upper_bound")
        if mk is not None:
            if lb is not None and mk < lb:
                ctx.violation("c03_below_recorded_lower_bound", {"name": case["name"], "makespan": mk, "lower_bound": lb})
            if S.metadata["status"] == "optimal":
                ctx.count("benchmark_optimal")
                if opt is not None and mk != opt:
                    ctx.violation("c03_optimal_differs_from_recorded_optimum",
                                  {"name": case["name"], "makespan": mk, "recorded": opt})
                if ub is not None and mk > ub:
                    ctx.violation("c03_optimal_above_recorded_upper_bound",
                                  {"name": case["name"], "makespan": mk, "upper_bound": ub})
        ctx.note_case(case, True)
