"""C02 - start times are forced, bookkeeping matches, histories replay."""

from __future__ import annotations

import tempfile

from .. import gen, monitors
from ..ref import schedule_triples
from . import _dispatch_workload as W

ID = "C02"
LEVEL = "exploration"
RULE = (
    "same seeded history workload as C01 (biased to recirculation, flexible machine "
    "choice, zero durations); after every accepted dispatch the start time is "
    "compared with max(job predecessor end, machine last end) computed (1) from the "
    "pre-state schedule by the contract layer and (2) by the lock-step reference "
    "model, and the tracking vectors / count / makespan are compared with values "
    "derived from the schedule; at the end the recorded history is replayed on a "
    "fresh dispatcher, on the same dispatcher after reset(), and through the GIF "
    "frame-replay path. distinct = distinct (instance, history); non-trivial = two "
    "jobs compete for a machine"
)
ANCHORS = [
    "job_shop_lib.dispatching._dispatcher:Dispatcher.start_time",
    "job_shop_lib.dispatching._dispatcher:Dispatcher._update_tracking_attributes",
    "job_shop_lib.dispatching._dispatcher:Dispatcher.reset",
    "job_shop_lib._schedule:Schedule.makespan",
    "job_shop_lib.dispatching._history_observer:HistoryObserver.update",
    "job_shop_lib.visualization._gantt_chart_video_and_gif_creation:create_gantt_chart_frames",
]
ASSUMPTIONS = [
    "reference model (jsverif/ref.py) is an independent implementation of the "
    "forced-start rule; it is cross-checked by the contract layer's own derivation",
]
REQUIRED_COUNTERS = {"lockstep_start_checks": 100, "contract_c02_start_checked": 100,
                     "replay_fresh": 5, "replay_reset": 5, "replay_frames": 2}
WORKERS = {"quick": 1, "thorough": 14}
CLASSES = gen.INSTANCE_CLASSES + ["recirc", "flexible", "zero"]


def gen_cases(ctx):
    yield from W.gen_cases(
        ctx,
        n_hist=ctx.scale(3500, 600000),
        n_tree=ctx.scale(60, 15000),
        n_consumer=ctx.scale(200, 30000),
        tree_ops=(5, 7) if ctx.tier == "quick" else (6, 9),
        big=True,
        classes=CLASSES,
    )
    from .c01 import BENCH_QUICK, BENCH_THOROUGH
    yield from W.bench_cases(ctx, BENCH_QUICK if ctx.tier == "quick" else BENCH_THOROUGH)
    if ctx.tier == "thorough" and ctx.shard == 0:
        yield {"kind": "pytest", "seed": 0}


class H(W.Hooks):
    def __init__(self, ctx, case):
        self.ctx = ctx
        self.case = case
        self.hist_obs = None
        self.prefix = []        # what an earlier history observer (since unsubscribed) had recorded

    def recorded(self):
        return self.prefix + list(self.hist_obs.history)

    def reset(self, run):
        self.prefix = []        # a new episode: only the subscribed recorder's record counts
        # what was recorded in the abandoned episode stays what it was (checked at the end)
        self.kept = getattr(self, "kept", []) + [getattr(self, "current_records", [])]
        self.current_records = []

    def start(self, run):
        from job_shop_lib.dispatching import HistoryObserver
        self.prefix = []
        self.kept, self.current_records = [], []
        if self.case.get("seed", 0) % 7 == 2:
            # two user observers in front of the history observer; the second one unsubscribes the
            # first from inside one of its updates - the recorder behind them misses nothing
            from job_shop_lib.dispatching import DispatcherObserver

            class Plain(DispatcherObserver):
                _is_singleton = False
                def update(self, scheduled_operation): pass
                def reset(self): pass

            class Evictor(DispatcherObserver):
                _is_singleton = False
                def __init__(self, dispatcher, victim, at):
                    super().__init__(dispatcher)
                    self.victim, self.at, self.n = victim, at, 0
                def update(self, scheduled_operation):
                    self.n += 1
                    if self.n == self.at and self.victim in self.dispatcher.subscribers:
                        self.dispatcher.unsubscribe(self.victim)
                def reset(self): pass
            Evictor(run.d, Plain(run.d), 1 + self.case["seed"] % 3)
            self.ctx.count("histories_with_an_evicting_observer_in_front_of_the_recorder")
        if self.case.get("seed", 0) % 4 == 0 and len(run.ops) <= 40:
            # every built-in observer attached: observers read the dispatcher's bookkeeping, the
            # bookkeeping must still be the one implied by the schedule
            from . import _snap
            _snap.full_observer_set(run.d)
            self.ctx.count("histories_with_all_observers_attached")
        self.hist_obs = run.d.create_or_get_observer(HistoryObserver)

    def refused_add_changed_schedule(self, run, accepted, n_before):
        self.ctx.violation("c02_refused_schedule_add_changed_the_bookkeeping",
                           {"accepted": accepted, "count_before": n_before,
                            "count_after": run.d.schedule.num_scheduled_operations,
                            "is_complete": run.d.schedule.is_complete(),
                            "history": list(run.r.history)})

    def after(self, run, o, m):
        ctx, d, r = self.ctx, run.d, run.r
        # the records the caller keeps from this episode (the objects handed to the observers)
        self.current_records = [(so, so.operation.operation_id, so.start_time, so.machine_id)
                                for so in self.recorded()]
        if self.case.get("seed", 0) % 7 == 4 and not self.case.get("raiser") and not self.prefix \
                and len(r.history) == 1 + self.case["seed"] % 4 \
                and self.hist_obs in d.subscribers:
            # the recorder is unsubscribed and the dispatcher is asked for one again: it hands out
            # a subscribed recorder, and the two records together are the history
            from job_shop_lib.dispatching import HistoryObserver
            d.unsubscribe(self.hist_obs)
            self.prefix = list(self.hist_obs.history)
            self.hist_obs = d.create_or_get_observer(HistoryObserver)
            ctx.count("recorder_unsubscribed_and_obtained_again")
            if not any(x is self.hist_obs for x in d.subscribers):
                ctx.violation("c02_history_observer_differs",
                              {"what": "create_or_get_observer returned a recorder that is not subscribed",
                               "history": list(r.history)})
            elif self.hist_obs.history and len(self.hist_obs.history) == len(self.prefix):
                self.prefix = []    # the same object came back with its record: equally fine
        ctx.count("lockstep_start_checks")
        so = d.schedule.schedule[m][-1] if 0 <= m < len(d.schedule.schedule) and d.schedule.schedule[m] else None
        if so is None or so.operation is not run.op(o) or so.start_time != r.start[o]:
            ctx.violation("c02_start_differs_from_reference",
                          {"op": o, "machine": m, "want": r.start[o],
                           "got": None if so is None else so.start_time,
                           "history": r.history})
        got = (list(d.machine_next_available_time), list(d.job_next_available_time),
               list(d.job_next_operation_index), d.schedule.num_scheduled_operations,
               d.schedule.makespan())
        want = (r.machine_end, r.job_end, r.job_next, len(r.history), r.makespan())
        if got != want:
            ctx.violation("c02_tracking_differs_from_reference",
                          {"got": got, "want": want, "history": r.history})

    def fork_diverged(self, run, detail):
        kind = ("c02_state_changed_by_a_library_component_looking_at_it"
                if "in the middle of the history" in str(detail.get("when")) else
                "c02_copied_dispatcher_not_independent" if "copy" in str(detail.get("when")) else
                "c02_dispatchers_for_the_same_instance_not_independent")
        self.ctx.violation(kind, detail)

    def end(self, run):
        from job_shop_lib.dispatching import Dispatcher
        ctx, r = self.ctx, run.r
        for ep, recs in enumerate(getattr(self, "kept", [])):
            ctx.count("records_of_earlier_episodes_read_again", len(recs))
            changed = [(oid, st, mid, so.operation.operation_id, so.start_time, so.machine_id)
                       for so, oid, st, mid in recs
                       if (so.operation.operation_id, so.start_time, so.machine_id) != (oid, st, mid)]
            if changed:
                ctx.violation("c02_records_of_an_earlier_episode_changed_later",
                              {"episode": ep + 1, "then_and_now": changed[:5]})
                break
        original = schedule_triples(run.d.schedule)
        if original != r.triples():
            ctx.violation("c02_schedule_differs_from_reference",
                          {"got": original, "want": r.triples()})
        hist = [(so.operation.operation_id, so.start_time, so.machine_id)
                for so in self.recorded()]
        if [(o, m) for o, _, m in hist] != list(r.history) or any(
                s != r.start[o] for o, s, _ in hist):
            ctx.violation("c02_history_observer_differs", {"got": hist, "want": r.history})
        # (a) fresh dispatcher, no filter: schedule is a pure function of history
        fresh = Dispatcher(run.instance)
        for o, m in r.history:
            fresh.dispatch(run.op(o), m)
        ctx.count("replay_fresh")
        if schedule_triples(fresh.schedule) != original:
            ctx.violation("c02_replay_fresh_differs",
                          {"got": schedule_triples(fresh.schedule), "want": original})
        # (a') fresh dispatcher on an equal instance rebuilt from the dictionary form (driven with
        # that instance's own operation objects: whether operation objects of another, equal
        # instance are accepted is not part of the property)
        if len(r.history) % 3 == 0:
            from job_shop_lib import JobShopInstance
            twin_instance = JobShopInstance.from_matrices(**run.instance.to_dict())
            rebuilt = Dispatcher(twin_instance)
            for o, m in r.history:
                rebuilt.dispatch(twin_instance.jobs[r.op_job[o]][r.op_pos[o]], m)
            ctx.count("replay_on_rebuilt_instance")
            if schedule_triples(rebuilt.schedule) != original:
                ctx.violation("c02_replay_fresh_differs",
                              {"got": schedule_triples(rebuilt.schedule), "want": original,
                               "where": "fresh dispatcher on from_matrices(**to_dict())"})
        # (b) same dispatcher after reset (the record is the caller's own copy: whether the
        # observer's list object itself survives a reset is not part of the property)
        recorded = self.recorded()
        run.d.reset()
        for so in recorded:
            run.d.dispatch(so.operation, so.machine_id)
        ctx.count("replay_reset")
        if schedule_triples(run.d.schedule) != original:
            ctx.violation("c02_replay_after_reset_differs",
                          {"got": schedule_triples(run.d.schedule), "want": original})
        # (c) GIF/video frame replay path (no-op plotter records what it is shown)
        # frame files are written for each replayed step (~10 ms each): a share of the histories
        if len(r.history) <= 30 and (
                ctx.counters["replay_frames"] < 150 if ctx.tier == "quick"
                else (len(r.history) * 7 + r.makespan()) % 25 == 0):
            from matplotlib.figure import Figure
            from job_shop_lib.visualization import create_gantt_chart_frames
            shown = []

            def plot(schedule, makespan=None, available_operations=None, current_time=None):
                shown.append((schedule_triples(schedule), makespan))
                return Figure(figsize=(0.3, 0.3), dpi=20)

            with tempfile.TemporaryDirectory(prefix="jsv-c02-") as td:
                create_gantt_chart_frames(td, run.instance, None, plot, False, recorded)
            ctx.count("replay_frames")
            if not shown or shown[-1][0] != original or len(shown) != len(recorded):
                ctx.violation("c02_frame_replay_differs",
                              {"frames": len(shown), "last": shown[-1] if shown else None,
                               "want": original})
            elif shown[-1][1] != r.makespan():
                ctx.violation("c02_frame_replay_makespan", {"got": shown[-1][1], "want": r.makespan()})


def run_case(ctx, case):
    before = (monitors.COUNTS["c02_start_checked"], monitors.COUNTS["c02_tracking_checked"])

    def sink(kind, witness):
        if kind.startswith("c02"):
            ctx.violation(kind, witness)
        else:
            ctx.count("other_property_events")

    monitors.install(sink)
    try:
        kind = case["kind"]
        if kind == "history":
            run = W.run_history(ctx, case, H(ctx, case))
            fp = (gen.fingerprint(case["instance"]), tuple(run.r.history))
            ctx.note_case(case, gen.competing(case["instance"]), fingerprint=str(hash(fp)))
            ctx.count("class_" + case["instance"]["cls"])
        elif kind == "tree":
            W.run_tree(ctx, case, H(ctx, case))
            ctx.note_case(case, gen.competing(case["instance"]))
        elif kind == "consumer":
            class CH(W.Hooks):
                def decoded_schedule_differs(self, got, want, where):
                    ctx.violation("c02_schedule_decoded_from_job_sequences_differs",
                                  {"where": where, "got": got, "want": want})
            W.run_consumer(ctx, case, CH())
            ctx.note_case(case, gen.competing(case["instance"]))
        elif kind == "benchmark":
            from job_shop_lib.benchmarking import load_benchmark_instance
            instance = load_benchmark_instance(case["name"])
            c = dict(case)
            c["instance"] = W.inst_from_library(instance)
            W.run_history(ctx, c, H(ctx, c), instance=instance)
            ctx.note_case(case, True)
            ctx.count("benchmark_histories")
        elif kind == "pytest":
            rc, summary, viols, tail = W.run_repo_tests_under_contracts(ctx, "c02")
            ctx.note_case(case, True)
            ctx.count("repo_tests_contract_evaluations",
                      (summary or {}).get("counts", {}).get("c02_start_checked", 0))
            if rc != 0:
                ctx.violation("c02_repo_tests_fail_under_contracts", {"tail": tail})
            for v in viols[:5]:
                ctx.violation(v["kind"], v)
    finally:
        ctx.count("contract_c02_start_checked", monitors.COUNTS["c02_start_checked"] - before[0])
        ctx.count("contract_c02_tracking_checked", monitors.COUNTS["c02_tracking_checked"] - before[1])
