"""C06 - time only moves forward."""

from __future__ import annotations

import random

from .. import gen
from ..drive import Run, gen_history_case, all_histories

ID = "C06"
LEVEL = "exploration"
RULE = (
    "seeded histories: all instance classes without filter; positive-duration "
    "classes under every filter configuration with an unfiltered twin dispatcher "
    "fed the same history (operations drawn from available_operations(), so the "
    "history is valid for both). After every dispatch: clock >= previous clock "
    "(shadow of the last value), completed set is a superset of the previous one, "
    "clock == reference clock, filtered clock == twin clock, min start over the "
    "available list == min start over the raw ready list; at completion clock == "
    "makespan. Complete dispatch trees for tiny instances. distinct = (instance, "
    "filter, history); non-trivial = the clock advanced at least twice"
)
ANCHORS = [
    "job_shop_lib.dispatching._dispatcher:Dispatcher.current_time",
    "job_shop_lib.dispatching._dispatcher:Dispatcher.min_start_time",
    "job_shop_lib.dispatching._dispatcher:Dispatcher.completed_operations",
    "job_shop_lib.dispatching._ready_operation_filters:filter_dominated_operations",
    "job_shop_lib.dispatching._ready_operation_filters:filter_non_idle_machines",
    "job_shop_lib.dispatching._ready_operation_filters:filter_non_immediate_machines",
    "job_shop_lib.dispatching._ready_operation_filters:filter_non_immediate_operations",
]
ASSUMPTIONS = ["filters combined with zero durations are out of the property's scope"]
REQUIRED_COUNTERS = {"fractional_histories": 20, "rule_evaluations_before_clock_read": 100, "histories_with_all_observers_attached": 50, "episodes_after_reset": 50, "disturbing_min_start_time_calls": 100, "clock_steps_checked": 1000, "twin_clock_checks": 300,
                     "completion_checks": 50}
WORKERS = {"quick": 1, "thorough": 14}


def gen_cases(ctx):
    rng = ctx.rng
    for i in range(ctx.scale(10000, 1500000)):
        filt = i % 2 == 1
        c = gen_history_case(
            rng, classes=gen.POSITIVE_CLASSES if filt else gen.INSTANCE_CLASSES,
            max_jobs=rng.choice([2, 3, 4, 5, 6]), max_machines=rng.choice([2, 3, 4, 5]),
            filters=filt)
        if filt and c["filter"] is None:
            c["filter"] = gen.gen_filter_spec(rng, allow_none=False)
        c["kind"] = "history"
        c["episodes"] = rng.choice([1, 1, 2, 3])
        c["observers"] = rng.random() < 0.25   # every built-in observer + residual updater attached
        # a second live dispatcher that uses the SAME filter object and reaches the same job
        # progress along another order of the same dispatches
        c["sibling"] = filt and rng.random() < 0.3
        # the dispatcher is copied (copy.deepcopy) or serialised (pickle round trip) mid-history;
        # the copy goes its own way, both clocks are judged
        c["fork"] = rng.choice([None] * 6 + ["deepcopy", "pickle"])
        if i % 40 == 7:
            # non-integral durations: only monotonicity, growth of the completed set and
            # "clock == makespan at completion" are judged (the library truncates the clock)
            c["instance"] = gen.gen_instance(rng, "fractional", max_jobs=4, max_machines=3)
            c["filter"] = None
            c["observers"] = False
        yield c
    for i in range(ctx.scale(2, 56)):
        yield {"kind": "history", "instance": gen.long_instance(rng), "filter": gen.gen_filter_spec(rng),
               "policy": "random_ready", "seed": rng.randrange(2**31), "episodes": 1, "observers": False,
               "sibling": False, "fork": None}
    from . import _env_workload as E
    for i in range(ctx.scale(80, 12000)):
        # the clock as met inside the multi-instance environment (filter from the constructor,
        # default, None, or changed through the env's setter; zero durations only without filter)
        c = E.gen_multi_case(rng)
        if c["generator"]["duration_range"][0] == 0:
            # zero durations: the clock is judged while no filter is in force
            c["setter"] = None
            if i % 2:
                c["constructor_filter"], c["setter_mid"] = "none", None
            else:
                c["constructor_filter"] = "default"
                c["setter_mid"] = [rng.choice([0, 1]), rng.choice([1, 2]), "none"]
        yield c
    for i in range(ctx.scale(600, 60000)):
        # some steps of the history are performed by a rule solver (solver.step) on the caller's
        # dispatcher, which has no filter: zero durations allowed
        c = gen_history_case(rng, classes=["zero", "zero", "zero"] + gen.INSTANCE_CLASSES,
                             max_jobs=rng.choice([2, 3, 4]),
                             max_machines=rng.choice([2, 3, 4]), filters=False)
        c.update(kind="history", episodes=1, observers=False, sibling=False, fork=None,
                 solver_steps=rng.randint(1, 4))
        yield c
    for i, name in enumerate(["ft06", "la01"] if ctx.tier == "quick" else ["ft06", "la01", "la02", "orb01", "abz5"]):
        if i % ctx.nshards == ctx.shard:
            yield {"kind": "benchmark_reload", "name": name, "seed": rng.randrange(2**31),
                   "instance": {"cls": "benchmark"},
                   "filter": {"names": [rng.choice(gen.FILTER_NAMES)], "form": "function"},
                   "policy": "random_ready"}
    for i in range(ctx.scale(40, 2000)):
        inst = gen.gen_instance(rng, rng.choice(["classic", "irregular", "recirc", "flexible"]), max_jobs=3,
                                max_machines=3)
        yield {"kind": "throwaway", "seed": rng.randrange(2**31), "instance": inst, "rounds": 25,
               "filter": {"names": [rng.choice(gen.FILTER_NAMES)], "form": "function"}}
    for i in range(ctx.scale(12, 600)):
        # process-wide growth: every case brings instances with more machines than ever before
        yield {"kind": "growing", "seed": rng.randrange(2**31), "first_m": 41 + 4 * i, "steps": 4,
               "instance": {"cls": "growing"}}
    for i in range(ctx.scale(150, 24000)):
        inst = gen.gen_instance(rng, rng.choice(gen.POSITIVE_CLASSES), max_jobs=3,
                                max_machines=3, max_ops=rng.randint(5, 7 if ctx.tier == "quick" else 8))
        fs = gen.gen_filter_spec(rng)
        yield {"kind": "tree", "instance": inst, "filter": fs,
               "seed": rng.randrange(2**31), "limit": 300}


_LARGEST_M = [40]     # larger than any machine count the other cases of this process use


def run_throwaway(ctx, case):
    """Many short-lived dispatchers for sibling histories of one instance (a search that builds a
    dispatcher per candidate, replays a prefix, looks at the clock and throws it away)."""
    from job_shop_lib.dispatching import Dispatcher
    rng = random.Random(case["seed"])
    inst = case["instance"]
    instance = gen.build(inst)
    spec = case["filter"]
    for k in range(case["rounds"]):
        run = Run(inst, spec, instance=instance)
        n = rng.randint(1, max(1, run.r.num_ops - 1))
        for _ in range(n):
            o, m = run.choose(rng, "random_ready")
            run.dispatch(o, m)
        now = run.d.current_time()
        ctx.count("clock_steps_checked")
        ctx.count("clock_reads_on_throwaway_dispatchers")
        want = run.ref_now()
        if want is not None and now != want:
            ctx.violation("c06_clock_differs_from_reference",
                          {"got": now, "want": want, "history": list(run.r.history), "filter": run.filter_names,
                           "who": f"throw-away dispatcher number {k + 1} for the same instance"})
            return
        del run
    ctx.note_case(case, True, fingerprint="throwaway:%s" % case["seed"])


def run_growing(ctx, case):
    """A long-lived process meets instances with more and more machines (larger than any seen
    before in the process); on each, the first operations are dispatched without asking the
    dispatcher anything, then the clock is read: filtering never changes it."""
    rng = random.Random(case["seed"])
    M0 = max(case["first_m"], _LARGEST_M[0] + 1)
    for i in range(case["steps"]):
        M = M0 + i
        _LARGEST_M[0] = M
        hi = [M - 1, M - 2, rng.randrange(M)]
        inst = {"cls": "growing",
                "durations": [[rng.randint(1, 6) for _ in range(rng.randint(2, 3))] for _ in range(3)],
                "machines": None}
        inst["machines"] = [[[rng.choice([0, 1] + hi)] for _ in job] for job in inst["durations"]]
        inst["machines"][0][0] = [M - 1]
        run = Run(inst, {"names": ["non_idle_machines"] if case["seed"] % 2 else [rng.choice(gen.FILTER_NAMES)],
                         "form": "function"})
        d, r = run.d, run.r
        for _ in range(rng.randint(1, 3) if i else 0):
            o, m = run.choose(rng, "random_ready")     # chosen from the reference, no query
            run.dispatch(o, m)
        last = None
        while True:
            if run.done() and case["seed"] % 4 < 2:
                break       # (the last question of an episode is usually asked before its last dispatch)
            now = d.current_time()
            ctx.count("clock_steps_checked")
            ctx.count("clock_reads_on_growing_instances")
            if now != r.current_time(None) or (last is not None and now < last):
                ctx.violation("c06_clock_differs_from_reference",
                              {"got": now, "want": r.current_time(None), "history": list(r.history),
                               "filter": run.filter_names, "instance": inst,
                               "who": "first query in the middle of an episode, more machines than ever before"})
                return
            last = now
            if run.done():
                break
            o, m = run.choose(rng, "random_available")
            run.dispatch(o, m)
    ctx.note_case(case, True, fingerprint="growing:%s" % case["seed"])


def one_history(ctx, case, explicit=None, instance=None):
    from job_shop_lib.dispatching import Dispatcher

    rng = random.Random(case["seed"])
    run = Run(case["instance"], case.get("filter"), instance=instance)
    twin = None
    if run.filter_names is not None:
        twin = Dispatcher(run.instance)  # unfiltered twin
    d, r = run.d, run.r
    fractional = case["instance"].get("cls") == "fractional"
    if fractional:
        run.clock_exact = False      # no reference equality for the truncated clock
        ctx.count("fractional_histories")
    if case.get("observers"):
        # observers are clients of the dispatcher's (cached) queries too
        from . import _snap
        _snap.full_observer_set(d)
        ctx.count("histories_with_all_observers_attached")
    sib = None
    pending = None
    if case.get("sibling") and explicit is None and run.filter_names is not None:
        sib = Run(case["instance"], case.get("filter"), instance=run.instance,
                  dispatcher=Dispatcher(run.instance,
                                        ready_operations_filter=d.ready_operations_filter))
        ctx.count("histories_with_a_sibling_sharing_the_filter")
    raiser = None
    if case["seed"] % 9 == 6 and explicit is None and not case.get("solver_steps"):
        # an observer that reads the clock inside update(), followed by one whose n-th update raises
        # once; the caller catches the error and carries on (with another operation if the library
        # withdrew the dispatch)
        from job_shop_lib.dispatching import DispatcherObserver

        class ClockReader(DispatcherObserver):
            _is_singleton = False

            def update(self, scheduled_operation):
                self.dispatcher.current_time(); self.dispatcher.completed_operations()

            def reset(self):
                pass
        from .c13 import make_raiser
        ClockReader(d)
        raiser = make_raiser(d, rng)
        ctx.count("histories_with_a_failing_observer_behind_a_clock_reader")
    fork_kind = case.get("fork") if explicit is None and raiser is None else None
    fork_at = rng.randint(1, max(1, r.num_ops - 1)) if fork_kind else None
    last = d.current_time()
    ctx.count("clock_steps_checked")
    if last != r.current_time(None) and run.clock_exact:
        ctx.violation("c06_initial_clock", {"got": last, "want": r.current_time(None)})
    completed = set(o.operation_id for o in d.completed_operations())
    advances = 0
    k = 0
    episodes_left = (case.get("episodes", 1) - 1) if explicit is None else 0
    while not run.done() or episodes_left > 0:
        if run.done():
            # finish of an episode: check it, then reuse the same dispatcher after reset()
            ctx.count("completion_checks")
            if d.current_time() != r.makespan() or d.schedule.makespan() != r.makespan():
                ctx.violation("c06_clock_not_makespan_at_completion",
                              {"clock": d.current_time(), "schedule_makespan": d.schedule.makespan(),
                               "makespan": r.makespan(), "history": list(r.history), "episode": "not last"})
            episodes_left -= 1
            d.reset(); r.reset()
            if twin is not None:
                twin.reset()
            if sib is not None:
                sib.d.reset(); sib.r.reset(); pending = None
            ctx.count("episodes_after_reset")
            last = d.current_time()
            completed = set(o.operation_id for o in d.completed_operations())
            if last != 0 or completed:
                ctx.violation("c06_clock_or_completed_set_not_reset", {"clock": last, "completed": sorted(completed)})
            continue
        if explicit is not None:
            o, m = explicit[k]
        else:
            pol = case["policy"]
            o, m = run.choose(rng, pol if pol != "mixed" else rng.choice(gen.POLICIES))
        k += 1
        # warm the caches that hold pre-state answers
        d.current_time(); d.completed_operations()
        if case.get("solver_steps") and k % 2 == 0 and explicit is None:
            from . import _env_workload as E
            if case["seed"] % 2 and len(r.history) >= 1:
                clocks = E.solver_finish(ctx, run, rng, "c06")
                seq = [last] + clocks
                if any(a > b for a, b in zip(seq, seq[1:])):
                    ctx.violation("c06_clock_went_backwards",
                                  {"clocks_seen_by_an_observer": seq, "history": list(r.history),
                                   "driver": "solver.solve(instance, dispatcher)"})
                last = d.current_time()
                completed = set(x.operation_id for x in d.completed_operations())
                continue
            E.solver_steps(ctx, run, rng, case["solver_steps"], "c06")
            if run.done():
                last = d.current_time()
                completed = set(x.operation_id for x in d.completed_operations())
                continue
            o, m = run.choose(rng, "random_ready")
        try:
            run.dispatch(o, m)
        except RuntimeError:
            if raiser is None:
                raise
            ctx.count("dispatches_with_a_failing_observer")
            if any(so.operation is run.op(o) for lst in d.schedule.schedule for so in lst):
                r.apply(o, m)
            else:
                # the library withdrew the dispatch: the clock is read (it may not have moved
                # back) and the caller goes on, most likely with another operation
                ctx.count("dispatches_withdrawn_after_an_observer_failure")
                now_w = d.current_time()
                done_w = set(x.operation_id for x in d.completed_operations())
                if now_w < last or not completed <= done_w:
                    ctx.violation("c06_clock_went_backwards",
                                  {"before": last, "after": now_w, "history": list(r.history),
                                   "driver": "a dispatch withdrawn after an observer failure"})
                    return
                last, completed = now_w, done_w
                continue
        if not fractional and not run.done() and rng.random() < 0.25:
            # built-in rules and scoring functions are clients of the cached lists as well:
            # evaluating one must not move the clock
            from job_shop_lib.dispatching.rules import (
                dispatching_rule_factory, score_based_rule_with_tie_breaker,
                shortest_processing_time_score, most_operations_remaining_score)
            which = rng.randrange(6)
            rule = (score_based_rule_with_tie_breaker(
                        [shortest_processing_time_score, most_operations_remaining_score][: 1 + which % 2])
                    if which >= 4 else dispatching_rule_factory(
                        ["shortest_processing_time", "first_come_first_served", "most_work_remaining",
                         "most_operations_remaining"][which]))
            rule(d)
            ctx.count("rule_evaluations_before_clock_read")
        if rng.random() < 0.3 and not fractional:
            # a public query with its own argument must not disturb the clock
            pool = r.unscheduled()
            sub = rng.sample(pool, rng.randint(1, len(pool))) if pool else []
            got = d.min_start_time([run.op(x) for x in sub])
            ctx.count("disturbing_min_start_time_calls")
            if got != r.min_start(sub):
                ctx.violation("c06_min_start_time_of_sublist", {"ops": sub, "got": got, "want": r.min_start(sub)})
        if sib is not None:
            # the sibling performs the same dispatches with adjacent pairs swapped where legal
            if pending is None:
                pending = (o, m)
            else:
                pair = [pending, (o, m)]
                if sib.r.op_job[o] != sib.r.op_job[pending[0]]:
                    pair.reverse()
                    ctx.count("sibling_swapped_pairs")
                for o2, m2 in pair:
                    sib.dispatch(o2, m2)
                pending = None
                got2 = sib.d.current_time()
                ctx.count("sibling_clock_checks")
                if sib.clock_exact and got2 != sib.r.current_time(None):
                    ctx.violation("c06_clock_differs_from_reference",
                                  {"got": got2, "want": sib.r.current_time(None),
                                   "history": list(sib.r.history), "filter": run.filter_names,
                                   "who": "second dispatcher sharing the filter object",
                                   "other_history": list(r.history)})
        if fork_at is not None and len(r.history) == fork_at:
            fork_at = None
            _fork_and_judge(ctx, case, run, rng, fork_kind, completed)
        if rng.random() < 0.15 and not fractional:
            # other public calls between the dispatch and the first reading of the clock / of the
            # completed set: walking through the scheduled operations, applying a built-in filter
            # by hand to some of the ready operations
            for _ in d.scheduled_operations():
                pass
            ready_now = d.raw_ready_operations()
            if len(ready_now) >= 2 and not r.has_zero:
                from job_shop_lib.dispatching import ready_operations_filter_factory
                sub = ready_now[1:] if rng.random() < 0.5 else ready_now[:-1]
                ready_operations_filter_factory(rng.choice(gen.FILTER_NAMES))(d, list(sub))
            ctx.count("disturbing_iterations_and_manual_filter_calls")
        now = d.current_time()
        ctx.count("clock_steps_checked")
        if sib is not None and pending is None and sib.clock_exact \
                and sib.d.current_time() != sib.r.current_time(None):
            ctx.violation("c06_clock_differs_from_reference",
                          {"got": sib.d.current_time(), "want": sib.r.current_time(None),
                           "history": list(sib.r.history), "filter": run.filter_names,
                           "who": "second dispatcher sharing the filter object, read again"})
        if now < last:
            ctx.violation("c06_clock_went_backwards",
                          {"before": last, "after": now, "history": list(r.history),
                           "filter": run.filter_names})
        if now > last:
            advances += 1
        if run.clock_exact and now != r.current_time(None):
            ctx.violation("c06_clock_differs_from_reference",
                          {"got": now, "want": r.current_time(None),
                           "history": list(r.history), "filter": run.filter_names})
        comp = set(x.operation_id for x in d.completed_operations())
        if not completed <= comp:
            ctx.violation("c06_completed_set_shrank",
                          {"lost": sorted(completed - comp), "history": list(r.history)})
        if run.clock_exact and comp != set(r.completed(r.current_time(None))):
            ctx.violation("c06_completed_differs_from_reference",
                          {"got": sorted(comp), "want": sorted(r.completed(r.current_time(None))),
                           "history": list(r.history)})
        if twin is not None:
            twin.current_time()
            twin.dispatch(run.op(o), m)
            ctx.count("twin_clock_checks")
            if twin.current_time() != now:
                ctx.violation("c06_filter_changed_clock",
                              {"filtered": now, "unfiltered": twin.current_time(),
                               "history": list(r.history), "filter": run.filter_names})
            avail = d.available_operations()
            if avail and d.min_start_time(avail) != d.min_start_time(d.raw_ready_operations()):
                ctx.violation("c06_filter_dropped_min_start",
                              {"history": list(r.history), "filter": run.filter_names})
        last, completed = now, comp
    ctx.count("completion_checks")
    if d.current_time() != d.schedule.makespan() or d.current_time() != r.makespan() \
            or d.schedule.makespan() != r.makespan():
        ctx.violation("c06_clock_not_makespan_at_completion",
                      {"clock": d.current_time(), "makespan": r.makespan(),
                       "history": list(r.history)})
    if len(d.completed_operations()) != r.num_ops:
        ctx.violation("c06_not_all_completed_at_end", {"history": list(r.history)})
    return run, advances


def _fork_and_judge(ctx, case, run, rng, kind, completed_before):
    import copy
    import pickle
    try:
        d2 = copy.deepcopy(run.d) if kind == "deepcopy" else pickle.loads(pickle.dumps(run.d))
    except Exception:
        if kind == "deepcopy":
            raise
        ctx.count("dispatchers_not_picklable")      # closures / lambdas among filters or observers
        return
    ctx.count("forks_by_" + kind)
    twin = Run(case["instance"], case.get("filter"), dispatcher=d2, instance=d2.instance)
    twin.r = run.r.clone()
    w = {"fork": kind, "history_at_fork": list(run.r.history), "filter": run.filter_names}
    last2 = d2.current_time()
    if last2 != run.d.current_time():
        ctx.violation("c06_clock_of_copy_differs_at_fork",
                      dict(w, copy=last2, original=run.d.current_time()))
        return
    comp2 = set(x.operation_id for x in d2.completed_operations())
    if comp2 != set(x.operation_id for x in run.d.completed_operations()):
        ctx.violation("c06_completed_set_of_copy_differs_at_fork", w)
        return
    steps = rng.randint(1, max(1, twin.r.num_ops - len(twin.r.history)))
    for _ in range(steps):
        if twin.done():
            break
        o, m = twin.choose(rng, rng.choice(gen.POLICIES))
        twin.dispatch(o, m)
        now2 = d2.current_time()
        ctx.count("fork_clock_checks")
        if now2 < last2:
            ctx.violation("c06_clock_went_backwards",
                          dict(w, before=last2, after=now2, history=list(twin.r.history), who="copy"))
            return
        if run.clock_exact and now2 != twin.r.current_time(None):
            ctx.violation("c06_clock_differs_from_reference",
                          dict(w, got=now2, want=twin.r.current_time(None),
                               history=list(twin.r.history), who="copy"))
            return
        c2 = set(x.operation_id for x in d2.completed_operations())
        if not comp2 <= c2:
            ctx.violation("c06_completed_set_shrank", dict(w, lost=sorted(comp2 - c2), who="copy"))
            return
        last2, comp2 = now2, c2
    if twin.done() and d2.current_time() != twin.r.makespan():
        ctx.violation("c06_clock_not_makespan_at_completion",
                      dict(w, clock=d2.current_time(), makespan=twin.r.makespan(), who="copy"))
    # the original must be untouched by what happened on the copy (judged by the caller's own
    # checks right after this returns)


def run_multi_env(ctx, case):
    from . import _env_workload as E
    last = None
    completed = set()
    for event, run, info in E.multi_env_episodes(ctx, case):
        d, r = run.d, run.r
        now = d.current_time()
        comp = set(x.operation_id for x in d.completed_operations())
        ctx.count("clock_steps_checked")
        w = {"env": "multi", "event": event, "history": list(r.history), "filter": run.filter_names,
             "constructor_filter": case["constructor_filter"], "setter": case.get("setter")}
        judged = run.filter_names is None or not run.r.has_zero
        if event == "reset":
            if now != 0 or comp:
                ctx.violation("c06_clock_or_completed_set_not_reset", dict(w, clock=now))
        elif event == "filter_changed" or not judged or last is None:
            pass    # another filter from here on: monotonicity is judged anew
        else:
            if now < last:
                ctx.violation("c06_clock_went_backwards", dict(w, before=last, after=now))
            if not completed <= comp:
                ctx.violation("c06_completed_set_shrank", dict(w, lost=sorted(completed - comp)))
            if run.clock_exact and now != r.current_time(None):
                ctx.violation("c06_clock_differs_from_reference", dict(w, got=now, want=r.current_time(None)))
            if run.done():
                ctx.count("completion_checks")
                if now != r.makespan():
                    ctx.violation("c06_clock_not_makespan_at_completion", dict(w, clock=now, makespan=r.makespan()))
        # (what is read right after the filter was re-assigned may still be an answer cached for the
        # old filter: it is neither judged nor taken as the baseline of what follows)
        last, completed = (now, comp) if judged and event != "filter_changed" else (None, set())
    ctx.note_case(case, True, fingerprint="multi:%s:%s:%s" % (case["seed"], case["constructor_filter"],
                                                              case.get("setter")))


def run_case(ctx, case):
    if case["kind"] == "multi_env_filter":
        return run_multi_env(ctx, case)
    if case["kind"] == "benchmark_reload":
        # a recorded benchmark instance is loaded, a variant is made of that copy by editing it in
        # place (zero durations) and used; a later load must again be the recorded instance
        from job_shop_lib.benchmarking import load_benchmark_instance
        from ._dispatch_workload import inst_from_library
        first = load_benchmark_instance(case["name"])
        recorded = inst_from_library(first)
        for job in first.jobs:
            job[0].duration = 0
        again = load_benchmark_instance(case["name"])
        c = dict(case)
        c["instance"] = recorded
        c["kind"] = "history"
        one_history(ctx, c, instance=again)
        ctx.count("benchmark_reloads")
        ctx.note_case(case, True, fingerprint="reload:" + case["name"])
        return
    if case["kind"] == "growing":
        return run_growing(ctx, case)
    if case["kind"] == "throwaway":
        return run_throwaway(ctx, case)
    if case["kind"] == "history":
        run, adv = one_history(ctx, case)
        fp = hash((gen.fingerprint(case["instance"]), str(case.get("filter")), tuple(run.r.history)))
        ctx.note_case(case, adv >= 2, fingerprint=str(fp))
        ctx.count("class_" + case["instance"]["cls"])
        ctx.count("filtered_histories" if case.get("filter") else "unfiltered_histories")
    else:
        names = None if case.get("filter") is None else case["filter"]["names"]
        n = 0
        for h in all_histories(case["instance"], names, limit=case["limit"]):
            one_history(ctx, case, explicit=h)
            n += 1
        ctx.count("tree_histories", n)
        ctx.note_case(case, True)
