"""C01 - every dispatch history yields a feasible schedule."""

from __future__ import annotations

from .. import gen, monitors
from ..ref import feasibility_errors, schedule_triples
from . import _dispatch_workload as W

ID = "C01"
LEVEL = "exploration"
RULE = (
    "cases = seeded dispatch histories (instance class x filter configuration x "
    "history policy, operations drawn from the raw ready list or from "
    "available_operations(), every eligible machine), complete dispatch trees of "
    "tiny instances, library consumers that dispatch internally (rule solvers, "
    "env, from_job_sequences, GIF frame replay); the feasibility post-condition "
    "runs after EVERY accepted dispatch. distinct = distinct (instance, filter, "
    "history) triples; non-trivial = at least two jobs compete for a machine"
)
ANCHORS = [
    "job_shop_lib.dispatching._dispatcher:Dispatcher.dispatch",
    "job_shop_lib.dispatching._dispatcher:Dispatcher.is_operation_ready",
    "job_shop_lib.dispatching._dispatcher:Dispatcher.start_time",
    "job_shop_lib.dispatching._dispatcher:Dispatcher._update_tracking_attributes",
    "job_shop_lib._schedule:Schedule.add",
    "job_shop_lib._schedule:Schedule._check_start_time_of_new_operation",
    "job_shop_lib._scheduled_operation:ScheduledOperation.__init__",
]
ASSUMPTIONS = [
    "generated instance classes are representative; empty jobs excluded",
    "feasibility oracle = own plain-loop checker (two independent versions)",
]
REQUIRED_COUNTERS = {"contract_dispatch_post": 100, "end_of_history_checks": 5}
WORKERS = {"quick": 1, "thorough": 14}
BENCH_QUICK = ["ft06", "la01"]
BENCH_THOROUGH = ["ft06", "ft10", "ft20", "la01", "la02", "la06", "la16", "la21",
                  "orb01", "abz5", "abz7", "ta01", "swv01", "yn1"]


def gen_cases(ctx):
    yield from W.gen_cases(
        ctx,
        n_hist=ctx.scale(6000, 900000),
        n_tree=ctx.scale(100, 18000),
        n_consumer=ctx.scale(300, 36000),
        tree_ops=(5, 7) if ctx.tier == "quick" else (6, 9),
        big=True,
    )
    for i in range(ctx.scale(6, 300)):
        # a long-lived process that builds, schedules and drops many instances whose operations
        # have many alternative machines
        yield {"kind": "churn", "seed": ctx.rng.randrange(2**31), "instance": {"cls": "churn"}, "filter": None}
    yield from W.bench_cases(ctx, BENCH_QUICK if ctx.tier == "quick" else BENCH_THOROUGH)
    if ctx.tier == "thorough" and ctx.shard == 0:
        yield {"kind": "pytest", "seed": 0}


class H(W.Hooks):
    def __init__(self, ctx):
        self.ctx = ctx

    def accepted_invalid(self, run, o, m):
        # independent view of the damage (the contract layer has already judged the schedule)
        errs = feasibility_errors(run.r, schedule_triples(run.d.schedule))
        self.ctx.violation("c01_infeasible_schedule_after_accepting_a_refusable_request",
                           {"request": [o, m], "errors": errs[:6], "history": list(run.r.history)})

    def refused_add_changed_schedule(self, run, accepted, n_before):
        self.ctx.violation("c01_refused_schedule_add_changed_the_schedule",
                           {"accepted": accepted, "count_before": n_before,
                            "count_after": run.d.schedule.num_scheduled_operations,
                            "is_complete": run.d.schedule.is_complete()})

    def solver_returned_partial_schedule(self, schedule):
        self.ctx.violation("c01_solver_returned_an_incomplete_schedule",
                           {"scheduled": schedule.num_scheduled_operations,
                            "operations": schedule.instance.num_operations})

    def fork_diverged(self, run, detail):
        kind = ("c01_state_changed_by_a_library_component_looking_at_it"
                if "in the middle of the history" in str(detail.get("when")) else
                "c01_copied_dispatcher_not_independent" if "copy" in str(detail.get("when")) else
                "c01_dispatchers_for_the_same_instance_not_independent")
        self.ctx.violation(kind, detail)

    def end(self, run):
        ctx = self.ctx
        ctx.count("end_of_history_checks")
        errs = feasibility_errors(run.r, schedule_triples(run.d.schedule),
                                  require_complete=True)
        if errs:
            ctx.violation("c01_final_schedule_infeasible", {"errors": errs[:8]})
        if not run.d.schedule.is_complete():
            ctx.violation("c01_not_complete_after_all_dispatches", {})


def run_case(ctx, case):
    before = monitors.COUNTS["dispatch_post"]

    def sink(kind, witness):
        if kind.startswith("c01"):
            ctx.violation(kind, witness)
        else:
            ctx.count("other_property_events")

    monitors.install(sink)
    try:
        kind = case["kind"]
        if kind == "history":
            run = W.run_history(ctx, case, H(ctx))
            fp = (gen.fingerprint(case["instance"]), str(case["filter"]),
                  tuple(run.r.history))
            ctx.note_case(case, gen.competing(case["instance"]), fingerprint=str(hash(fp)))
            ctx.count("class_" + case["instance"]["cls"])
        elif kind == "tree":
            n = W.run_tree(ctx, case, H(ctx))
            ctx.note_case(case, gen.competing(case["instance"]))
            ctx.count("trees_complete" if n < case.get("limit", 1 << 30) else "trees_truncated")
        elif kind == "churn":
            import random
            rng = random.Random(case["seed"])
            for k in range(40):
                M = rng.randint(11, 14)
                inst = {"cls": "flexible",
                        "durations": [[rng.randint(1, 5) for _ in range(2)] for _ in range(rng.randint(2, 3))],
                        "machines": None}
                inst["machines"] = [[sorted(rng.sample(range(M), rng.randint(9, M - 1))) for _ in job]
                                    for job in inst["durations"]]
                inst["machines"][0][0] = sorted(set(inst["machines"][0][0]) | {M - 1})   # all M machines exist
                run = W.Run(inst, None)
                while not run.done():
                    o = rng.choice(run.r.ready())
                    bad = [m for m in range(M) if m not in run.r.op_machines[o]]
                    if bad:
                        ctx.count("refusable_requests_tried")
                        try:
                            run.d.dispatch(run.op(o), rng.choice(bad))
                        except Exception:
                            pass
                        else:
                            ctx.count("refusable_requests_accepted")
                            H(ctx).accepted_invalid(run, o, -1)
                            return
                    run.dispatch(o, rng.choice(run.r.op_machines[o]))
                errs = feasibility_errors(run.r, schedule_triples(run.d.schedule), require_complete=True)
                if errs or schedule_triples(run.d.schedule) != run.r.triples():
                    ctx.violation("c01_infeasible_schedule", {"errors": errs[:5], "instance": inst,
                                                              "history": list(run.r.history)})
                    return
                del run
            ctx.count("short_lived_instances_with_many_alternative_machines", 40)
            ctx.note_case(case, True, fingerprint="churn:%s" % case["seed"])
        elif kind == "consumer":
            W.run_consumer(ctx, case, H(ctx))
            ctx.note_case(case, gen.competing(case["instance"]))
        elif kind == "benchmark":
            from job_shop_lib.benchmarking import load_benchmark_instance

            instance = load_benchmark_instance(case["name"])
            c = dict(case)
            c["instance"] = W.inst_from_library(instance)
            W.run_history(ctx, c, H(ctx), instance=instance)
            ctx.note_case(case, True)
            ctx.count("benchmark_histories")
        elif kind == "pytest":
            rc, summary, viols, tail = W.run_repo_tests_under_contracts(ctx, "c01")
            ctx.note_case(case, True)
            ctx.count("repo_tests_contract_evaluations",
                      (summary or {}).get("counts", {}).get("dispatch_post", 0))
            if rc != 0:
                ctx.violation("c01_repo_tests_fail_under_contracts", {"tail": tail})
            for v in viols[:5]:
                ctx.violation(v["kind"], v)
    finally:
        ctx.count("contract_dispatch_post", monitors.COUNTS["dispatch_post"] - before)
