"""C15 - equality means same content."""

from __future__ import annotations

import copy
import random

from .. import gen

gen.WIDE_RATE = 0   # wide (~100 operation) instances: too costly here / not needed
from ..drive import Run

ID = "C15"
LEVEL = "exploration"
RULE = (
    "pairs / triples are built by construction from seeded instances: an "
    "independently built copy (must be ==), and single-field mutations - one "
    "operation's machines, one duration, an operation moved to another job or "
    "position (job structure), a different start time, a different machine "
    "assignment (must be !=) - for Operation, ScheduledOperation, Schedule and "
    "JobShopInstance; reflexivity, symmetry, transitivity, != consistent with ==, "
    "comparison with foreign objects, and hash(a) == hash(b) for equal operations "
    "are checked on every pair. distinct = distinct (object kind, base content, "
    "mutation); non-trivial = the pair differs in exactly one field or is an "
    "independent equal copy"
)
ANCHORS = [
    "job_shop_lib._operation:Operation.__eq__",
    "job_shop_lib._operation:Operation.__hash__",
    "job_shop_lib._scheduled_operation:ScheduledOperation.__eq__",
    "job_shop_lib._schedule:Schedule.__eq__",
    "job_shop_lib._job_shop_instance:JobShopInstance.__eq__",
]
ASSUMPTIONS = [
    "content of an operation = machines, duration, job id, position, operation id; "
    "two machine lists with the same members in a different order are not compared",
]
REQUIRED_COUNTERS = {"in_place_mutation_checks": 100, "same_id_other_structure_pairs": 30, "equal_pairs": 200, "different_pairs": 500, "transitivity_triples": 100,
                     "kind_operation": 100, "kind_scheduled_operation": 100,
                     "kind_schedule": 100, "kind_instance": 100}
WORKERS = {"quick": 1, "thorough": 8}


def gen_cases(ctx):
    rng = ctx.rng
    for i in range(ctx.scale(12000, 1800000)):
        inst = gen.gen_instance(rng, None, max_jobs=rng.choice([2, 3, 4]), max_machines=rng.choice([2, 3, 4]))
        yield {"instance": inst, "seed": rng.randrange(2**31)}
    for i in range(ctx.scale(8, 400)):
        # a long run that builds, compares and drops larger instances (50+ operations) again and
        # again: every comparison is decided by the content of the two objects at hand
        yield {"kind": "churn", "seed": rng.randrange(2**31), "instance": {"cls": "churn"}}


def mutate_instance(inst, rng):
    """Returns (mutated description, what) differing in exactly one field."""
    m = copy.deepcopy(inst)
    kinds = ["duration", "machines", "structure"]
    what = rng.choice(kinds)
    j = rng.randrange(len(m["durations"]))
    p = rng.randrange(len(m["durations"][j]))
    if what == "duration":
        m["durations"][j][p] += rng.choice([1, 2, 5])
    elif what == "machines":
        ms = m["machines"][j][p]
        top = max(x for job in m["machines"] for mm in job for x in mm)
        cand = [x for x in range(top + 2) if x not in ms]
        if len(ms) > 1 and rng.random() < 0.5:
            ms.pop(rng.randrange(len(ms)))
        else:
            ms[rng.randrange(len(ms))] = rng.choice(cand)
    else:
        # job structure: move the last operation of one job to another (or a new) job
        src = max(range(len(m["durations"])), key=lambda x: len(m["durations"][x]))
        if len(m["durations"][src]) < 2:
            m["durations"].append([m["durations"][0][0]])
            m["machines"].append([list(m["machines"][0][0])])
            what = "structure_extra_job"
        else:
            d = m["durations"][src].pop(); ms = m["machines"][src].pop()
            others = [x for x in range(len(m["durations"])) if x != src]
            if others and rng.random() < 0.6:
                dst = rng.choice(others)
                m["durations"][dst].append(d); m["machines"][dst].append(ms)
            else:
                m["durations"].append([d]); m["machines"].append([ms])
    return m, what


class Laws:
    base = ""

    def __init__(self, ctx, kind):
        self.ctx, self.kind = ctx, kind

    def expect(self, a, b, equal, what, detail=None):
        ctx = self.ctx
        ctx.count("equal_pairs" if equal else "different_pairs")
        ctx.count("kind_" + self.kind)
        ctx.distinct.add(f"{self.kind}:{what}:{Laws.base}:{detail}")
        w = {"kind": self.kind, "what": what, "detail": detail}
        try:
            ab, ba = (a == b), (b == a)
            nab = (a != b)
        except Exception as e:
            ctx.violation("c15_comparison_raised", dict(w, error=repr(e)))
            return
        if ab is not True and ab is not False:
            ctx.violation("c15_eq_not_boolean", dict(w, got=repr(ab)))
        if ab != ba:
            ctx.violation("c15_not_symmetric", dict(w, ab=ab, ba=ba))
        if nab == ab:
            ctx.violation("c15_ne_inconsistent_with_eq", dict(w, eq=ab, ne=nab))
        if not (a == a) or not (b == b):
            ctx.violation("c15_not_reflexive", w)
        if equal and not ab:
            ctx.violation("c15_same_content_not_equal", w)
        if not equal and ab:
            ctx.violation("c15_different_content_equal", w)
        if ab is True:
            # Python's own contract, for whatever of these classes is hashable: equal => same hash
            try:
                ha, hb = hash(a), hash(b)
            except TypeError:
                ha = hb = None
            else:
                ctx.count("hash_pairs_of_equal_objects")
            if ha != hb:
                ctx.violation("c15_equal_objects_hash_differently", dict(w, hashes=[ha, hb]))
        for foreign in (None, 0, "x", (1, 2), object()):
            try:
                if (a == foreign) is True:
                    ctx.violation("c15_equal_to_foreign_object", dict(w, foreign=repr(foreign)))
            except Exception as e:
                ctx.violation("c15_comparison_with_foreign_raised", dict(w, error=repr(e)))


def schedule_key(S):
    return [[(so.operation.operation_id, so.start_time, so.machine_id) for so in lst]
            for lst in S.schedule]


def build_schedule(inst, instance, history):
    from job_shop_lib.dispatching import Dispatcher
    d = Dispatcher(instance)
    ops = [o for job in instance.jobs for o in job]
    for o, m in history:
        d.dispatch(ops[o], m)
    return d.schedule


def run_churn(ctx, case):
    from job_shop_lib import JobShopInstance
    rng = random.Random(case["seed"])
    J, P, M = rng.randint(7, 9), rng.randint(7, 9), rng.randint(3, 6)
    base_d = [[rng.randint(1, 9) for _ in range(P)] for _ in range(J)]
    base_m = [[rng.randrange(M) for _ in range(P)] for _ in range(J)]
    L = Laws(ctx, "instance")
    Laws.base = "churn:%s" % case["seed"]
    for k in range(60):
        d2 = [list(r) for r in base_d]
        same = rng.random() < 0.5
        if not same:
            d2[rng.randrange(J)][rng.randrange(P)] += rng.randint(1, 3)
        X = JobShopInstance.from_matrices([list(r) for r in base_d], [list(r) for r in base_m], name="x")
        Y = JobShopInstance.from_matrices(d2, [list(r) for r in base_m], name="y")
        L.expect(X, Y, same, "same content" if same else "one duration differs (large instances, long run)", [k])
        del X, Y
    ctx.count("comparisons_in_long_runs_of_short_lived_large_instances", 60)
    ctx.note_case(case, True, fingerprint="churn:%s" % case["seed"])


def run_case(ctx, case):
    from job_shop_lib import Operation, ScheduledOperation, JobShopInstance, Schedule

    if case.get("kind") == "churn":
        return run_churn(ctx, case)
    rng = random.Random(case["seed"])
    inst = case["instance"]
    Laws.base = str(hash(gen.fingerprint(inst)))
    A, B, C = gen.build(inst), gen.build(inst, name="other name"), gen.build(inst)
    opsA = [o for job in A.jobs for o in job]
    opsB = [o for job in B.jobs for o in job]
    opsC = [o for job in C.jobs for o in job]

    # ---------------------------------------------------------------- operations
    L = Laws(ctx, "operation")
    i = rng.randrange(len(opsA))
    L.expect(opsA[i], opsB[i], True, "independent copy", [i])
    if hash(opsA[i]) != hash(opsB[i]):
        ctx.violation("c15_equal_operations_hash_differently", {"op": i})
    ctx.count("transitivity_triples")
    if opsA[i] == opsB[i] and opsB[i] == opsC[i] and not (opsA[i] == opsC[i]):
        ctx.violation("c15_not_transitive", {"kind": "operation"})
    u1 = Operation(list(opsA[i].machines), opsA[i].duration)
    u2 = Operation(list(opsA[i].machines), opsA[i].duration)
    L.expect(u1, u2, True, "unattached copy", [i])
    L.expect(u1, Operation(list(opsA[i].machines), opsA[i].duration + 1), False, "duration", [i])
    other_m = [max(opsA[i].machines) + 1]
    L.expect(u1, Operation(other_m, opsA[i].duration), False, "machines", [i])
    if len(opsA) > 1:
        k = rng.choice([x for x in range(len(opsA)) if x != i])
        same_payload = (opsA[k].machines == opsA[i].machines and opsA[k].duration == opsA[i].duration)
        # different place in the job structure => different operation even with equal payload
        L.expect(opsA[i], opsB[k], False,
                 "job structure (other position, %s payload)" % ("same" if same_payload else "other"),
                 [i, k])
    mut, what = mutate_instance(inst, rng)
    M = gen.build(mut)
    opsM = [o for job in M.jobs for o in job]
    L = Laws(ctx, "operation")
    for i2 in range(min(len(opsA), len(opsM))):
        a, b = opsA[i2], opsM[i2]
        same_payload = a.machines == b.machines and a.duration == b.duration
        if same_payload and (a.job_id, a.position_in_job) != (b.job_id, b.position_in_job):
            # same id, machines and duration, but another place in the job structure
            L.expect(a, b, False, "job structure (same id and payload, other job/position)", [i2])
            ctx.count("same_id_other_structure_pairs")
    # operations of a user's own subclass (an extra attribute in its own __slots__) are compared on
    # machines, durations and job structure like any other operation
    class DueOperation(Operation):
        __slots__ = ("due_date",)

        def __init__(self, machines, duration, due_date=0):
            super().__init__(machines, duration)
            self.due_date = due_date
    L = Laws(ctx, "operation")
    s1 = DueOperation(list(opsA[i].machines), opsA[i].duration, 5)
    s2 = DueOperation(list(opsA[i].machines), opsA[i].duration, 5)
    L.expect(s1, s2, True, "user subclass, same content", [i])
    L.expect(s1, DueOperation(list(opsA[i].machines), opsA[i].duration + 2, 5), False, "user subclass, duration", [i])
    L.expect(s1, DueOperation(other_m, opsA[i].duration, 5), False, "user subclass, machines", [i])
    SubI = JobShopInstance([[DueOperation(list(ms), dd, 9) for ms, dd in zip(mj, dj)]
                            for mj, dj in zip(inst["machines"], inst["durations"])])
    SubM = JobShopInstance([[DueOperation(list(ms), dd, 9) for ms, dd in zip(mj, dj)]
                            for mj, dj in zip(mut["machines"], mut["durations"])])
    Li = Laws(ctx, "instance")
    Li.expect(SubI, A, True, "instance made of a user subclass of Operation vs plain", None)
    Li.expect(SubI, SubM, False, what + " (instances made of a user subclass of Operation)", None)
    ctx.count("user_subclass_of_operation_checks")
    # machine lists given in another order: whether the order matters is the library's choice, but
    # the choice cannot depend on which ids are involved
    answers = {}
    for p_, q_ in ((0, 1), (1, 8), (0, 8), (3, 10), (2, 9), (7, 16), (5, 33)):
        x, y = Operation([p_, q_], 3), Operation([q_, p_], 3)
        answers[(p_, q_)] = (x == y)
    ctx.count("machine_order_sensitivity_checks")
    if len(set(answers.values())) > 1:
        ctx.violation("c15_machine_order_matters_for_some_ids_only",
                      {"equal_when_reordered": {str(k): v for k, v in answers.items()}})
    # ---------------------------------------------------------------- instances
    L = Laws(ctx, "instance")
    L.expect(A, B, True, "independent copy (other name)", None)
    L.expect(A, M, False, what, None)
    ctx.count("transitivity_triples")
    if A == B and B == C and not (A == C):
        ctx.violation("c15_not_transitive", {"kind": "instance"})
    via_dict = JobShopInstance.from_matrices(**A.to_dict())
    L.expect(A, via_dict, True, "dict round trip", None)
    # constructor vs from_matrices (two builders, same content)
    direct = JobShopInstance([[Operation(list(ms), dd) for ms, dd in zip(mj, dj)]
                              for mj, dj in zip(inst["machines"], inst["durations"])])
    L.expect(A, direct, True, "constructor vs from_matrices", None)
    if case["seed"] % 6 == 0 and not gen.is_flexible(inst) and all(
            isinstance(x, int) for j in inst["durations"] for x in j):
        # a third independent construction path: the Taillard text form of the same content
        import os
        import tempfile
        from .c14 import taillard_text
        with tempfile.TemporaryDirectory(prefix="jsv-c15-") as td:
            path = os.path.join(td, "inst.txt")
            with open(path, "w", encoding="utf-8") as f:
                f.write(taillard_text(inst, rng))
            from_file = JobShopInstance.from_taillard_file(path)
        L.expect(A, from_file, True, "from a Taillard file vs from_matrices", None)
        ctx.count("taillard_built_twins")
    # work done on a deep copy (re-wrapped with another job layout, as the library's own
    # transformations do) must leave the original equal to its twin
    dup = copy.deepcopy(A)
    jobs2 = list(dup.jobs)
    if len(jobs2) > 1:
        jobs2 = jobs2[1:] if rng.random() < 0.5 else jobs2[::-1]
    rew = JobShopInstance(jobs2, name="rewrapped copy")
    indep = JobShopInstance([[Operation(list(op.machines), op.duration) for op in job] for job in jobs2])
    L.expect(rew, indep, True, "re-wrapped deep copy vs independently built instance", None)
    ro = [o for job in rew.jobs for o in job]; io = [o for job in indep.jobs for o in job]
    L.expect(ro[-1], io[-1], True, "operation of a re-wrapped deep copy", None)
    if hash(ro[-1]) != hash(io[-1]) or hash(ro[0]) != hash(io[0]):
        ctx.violation("c15_equal_operations_hash_differently", {"what": "re-wrapped deep copy"})
    L.expect(A, B, True, "after a deep copy was re-wrapped", None)
    L.expect(opsA[-1], opsB[-1], True, "operation after a deep copy was re-wrapped", None)
    ctx.count("deepcopy_rewrap_checks")
    # copies made by the standard protocols (copy.deepcopy, pickle) have the same content
    import pickle
    Li = Laws(ctx, "instance")
    window = JobShopInstance(list(A.jobs[1:]) or list(A.jobs), name="window", set_operation_attributes=False)
    for nm, orig in (("instance", A), ("window over the jobs of another instance, attributes kept", window)):
        for how, clone in (("deepcopy", copy.deepcopy(orig)), ("pickle", pickle.loads(pickle.dumps(orig)))):
            Li.expect(orig, clone, True, f"{how} of an {nm}", None)
            for job_a, job_b in zip(orig.jobs, clone.jobs):
                for op_a, op_b in zip(job_a, job_b):
                    if not (op_a == op_b) or hash(op_a) != hash(op_b):
                        ctx.violation("c15_operation_of_a_copy_differs",
                                      {"how": how, "of": nm, "original": repr(op_a), "copy": repr(op_b),
                                       "ids": [(op_a.job_id, op_a.position_in_job, op_a.operation_id),
                                               (op_b.job_id, op_b.position_in_job, op_b.operation_id)]})
    ctx.count("standard_protocol_copies_of_instances")

    # ---------------------------------------------------------------- scheduled ops / schedules
    run = Run(inst)
    while not run.done():
        o, m = run.choose(rng, "random_ready")
        run.dispatch(o, m)
    hist = list(run.r.history)
    SA = build_schedule(inst, A, hist)
    SB = build_schedule(inst, B, hist)
    SC = build_schedule(inst, C, hist)
    L = Laws(ctx, "schedule")
    L.expect(SA, SB, True, "same history, independent instances", None)
    ctx.count("transitivity_triples")
    if SA == SB and SB == SC and not (SA == SC):
        ctx.violation("c15_not_transitive", {"kind": "schedule"})
    # other history -> compare by content to decide the expectation
    run2 = Run(inst)
    rng2 = random.Random(case["seed"] + 1)
    while not run2.done():
        o, m = run2.choose(rng2, "random_ready")
        run2.dispatch(o, m)
    S2 = build_schedule(inst, B, list(run2.r.history))
    L.expect(SA, S2, run.r.triples() == run2.r.triples(), "other history", None)
    # same job sequences, one duration changed (instance content differs)
    if what == "duration":
        try:
            SM = build_schedule(mut, M, hist)
            L.expect(SA, SM, False, "same history, one duration differs", None)
        except Exception:
            pass
    # delayed copy: same order, one start time shifted (feasible by construction: last op on a machine)
    lists = [[ScheduledOperation(opsB[so.operation.operation_id], so.start_time, so.machine_id)
              for so in lst] for lst in SA.schedule]
    nonempty = [k for k, lst in enumerate(lists) if lst]
    k = rng.choice(nonempty)
    last = lists[k][-1]
    # (also by less than one time unit: start times are compared as they are, not rounded)
    lists[k][-1] = ScheduledOperation(last.operation, last.start_time + rng.choice([1, 1, 0.5, 0.25]),
                                      last.machine_id)
    try:
        SD = Schedule(B, lists)
        L.expect(SA, SD, False, "one start time differs", None)
    except Exception:
        SD = None
    for nm, S0 in (("dispatcher-built schedule", SA), ("schedule with a delayed operation", SD)):
        if S0 is None:
            continue
        for how, clone in (("deepcopy", copy.deepcopy(S0)), ("pickle", pickle.loads(pickle.dumps(S0)))):
            L.expect(S0, clone, True, f"{how} of a {nm}", None)
            if schedule_key(clone) != schedule_key(S0):
                ctx.violation("c15_copy_of_a_schedule_has_other_content",
                              {"how": how, "of": nm, "original": schedule_key(S0), "copy": schedule_key(clone)})
    if SD is not None:
        L.expect(copy.deepcopy(SD), SA, False, "copy of the delayed schedule vs the undelayed one", None)
    ctx.count("standard_protocol_copies_of_schedules")
    partial = build_schedule(inst, B, hist[:-1])
    L.expect(SA, partial, False, "one operation missing", None)
    if case["seed"] % 4 == 1:
        # two runs of the same deterministic rule solver (solver(instance): the result carries run
        # statistics such as the elapsed time in its metadata)
        from job_shop_lib.dispatching.rules import DispatchingRuleSolver
        sv = DispatchingRuleSolver("most_work_remaining", "first")
        R1, R2, R3 = sv(A), sv(B), DispatchingRuleSolver("most_work_remaining", "first")(C)
        L.expect(R1, R2, True, "two runs of a deterministic solver", None)
        if R1 == R2 and R2 == R3 and not (R1 == R3):
            ctx.violation("c15_not_transitive", {"kind": "schedule", "what": "solver runs"})
        ctx.count("solver_run_pairs")
    # a refused `add` (overlap with the last operation of the machine), caught by the caller, leaves
    # the schedule equal to its twin
    tw1, tw2 = build_schedule(inst, B, hist[:-1]), build_schedule(inst, C, hist[:-1])
    o_last, m_last = hist[-1]
    if tw1.schedule[m_last]:
        try:
            tw1.add(ScheduledOperation(opsB[o_last], 0, m_last))
            refused = False
        except Exception:
            refused = True
        if refused:
            L.expect(tw1, tw2, True, "after a refused add", None)
            L.expect(tw1, SA, False, "after a refused add vs the complete schedule", None)
            ctx.count("refused_adds_before_comparison")

    L = Laws(ctx, "scheduled_operation")
    so = rng.choice([x for lst in SA.schedule for x in lst])
    oid = so.operation.operation_id
    L.expect(so, ScheduledOperation(opsB[oid], so.start_time, so.machine_id), True, "independent copy", [oid])
    L.expect(so, ScheduledOperation(opsB[oid], so.start_time + rng.choice([3, 1, 0.5, 0.75]), so.machine_id),
             False, "start time", [oid])
    L.expect(ScheduledOperation(opsA[oid], so.start_time + 0.25, so.machine_id),
             ScheduledOperation(opsB[oid], so.start_time + 0.75, so.machine_id), False,
             "start times that differ by half a unit", [oid])
    if len(so.operation.machines) > 1:
        other = [m for m in so.operation.machines if m != so.machine_id][0]
        L.expect(so, ScheduledOperation(opsB[oid], so.start_time, other), False, "machine assignment", [oid])
        ctx.count("machine_assignment_pairs")
    if len(opsA) > 1:
        k2 = rng.choice([x for x in range(len(opsA)) if x != oid])
        if so.machine_id in opsB[k2].machines:
            L.expect(so, ScheduledOperation(opsB[k2], so.start_time, so.machine_id), False,
                     "other operation, same start and machine", [oid, k2])
    # ---- objects are mutable through public attributes: equality must follow the CURRENT
    # content also after the object has been compared / hashed before (no stale memo)
    L = Laws(ctx, "scheduled_operation")
    base = rng.choice([x for lst in SA.schedule for x in lst])
    oid2 = base.operation.operation_id
    mut_so = ScheduledOperation(opsC[oid2], base.start_time, base.machine_id)
    twin_so = ScheduledOperation(opsB[oid2], base.start_time, base.machine_id)
    L.expect(mut_so, twin_so, True, "before in-place mutation", [oid2]); hash(mut_so.operation)
    try:
        hash(mut_so)
    except TypeError:
        pass
    mut_so.start_time = base.start_time + 2
    L.expect(mut_so, twin_so, False, "after start_time changed in place", [oid2])
    L.expect(mut_so, ScheduledOperation(opsB[oid2], base.start_time + 2, base.machine_id), True,
             "equal to a fresh object with the new start time", [oid2])
    if len(base.operation.machines) > 1:
        other = [m for m in base.operation.machines if m != base.machine_id][0]
        mut_so.machine_id = other
        L.expect(mut_so, ScheduledOperation(opsB[oid2], base.start_time + 2, other), True,
                 "equal to a fresh object after machine re-assignment", [oid2])
        L.expect(mut_so, ScheduledOperation(opsB[oid2], base.start_time + 2, base.machine_id), False,
                 "after machine re-assignment in place", [oid2])
    ctx.count("in_place_mutation_checks")
    L = Laws(ctx, "operation")
    mo, to = Operation(list(u1.machines), u1.duration), Operation(list(u1.machines), u1.duration)
    L.expect(mo, to, True, "before in-place mutation", None); hash(mo)
    mo.duration = u1.duration + 4
    L.expect(mo, to, False, "after duration changed in place", None)
    L.expect(mo, Operation(list(u1.machines), u1.duration + 4), True, "fresh object with new duration", None)
    # operations built from an int machine id own their machines list
    L = Laws(ctx, "operation")
    mid = rng.randrange(0, 4)
    p1, p2, p3 = Operation(mid, 3), Operation(mid, 3), Operation(mid, 3)
    L.expect(p1, p2, True, "int machine id, before in-place change", None)
    p1.machines.append(mid + 1)
    L.expect(p1, p2, False, "machines list extended in place on one of them", None)
    L.expect(p2, p3, True, "untouched twins after the change", None)
    L.expect(p2, Operation(mid, 3), True, "new operation after the change", None)
    # a schedule rebuilt from its dictionary form equals the original (several instances share a name)
    if not gen.is_flexible(inst):
        L = Laws(ctx, "schedule")
        try:
            L.expect(SA, Schedule.from_dict(**SA.to_dict()), True, "from_dict(to_dict())", None)
            if what in ("duration",):
                SM2 = build_schedule(mut, M, list(Run(mut).r.history) or [])
        except Exception as e:
            ctx.violation("c15_schedule_dict_round_trip_raised", {"error": repr(e)[:200]})
        ctx.count("schedule_dict_round_trips")
        # schedules decoded from per-machine job sequences, several for one instance object
        try:
            run2 = Run(inst)
            while not run2.done():
                o2, m2 = run2.choose(rng, rng.choice(["random_ready", "one_job_first", "latest_start"]))
                run2.dispatch(o2, m2)
            hist2 = list(run2.r.history)
            seq = lambda S: [[so.job_id for so in lst] for lst in S.schedule]
            T1, T2 = build_schedule(inst, B, hist), build_schedule(inst, B, hist2)
            D1 = Schedule.from_job_sequences(A, seq(T1))
            L.expect(D1, T1, True, "decoded from job sequences vs dispatcher-built", None)
            D2 = Schedule.from_job_sequences(A, seq(T2))
            different = schedule_key(T1) != schedule_key(T2)
            L.expect(D2, T2, True, "second decode for the same instance object", None)
            L.expect(D1, T1, True, "first decode, after a second decode for the same instance", None)
            if different:
                L.expect(D1, D2, False, "decodes of two different sequence sets", None)
            ctx.count("decoded_schedule_pairs")
        except Exception as e:
            ctx.violation("c15_job_sequence_decode_raised", {"error": repr(e)[:200]})
    ctx.evaluations += 1
    if len(ctx.samples) < 3:
        ctx.samples.append({"instance": inst, "mutation": what, "history": hist})
