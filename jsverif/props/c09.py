"""C09 - rejected requests change nothing (fault enumeration)."""

from __future__ import annotations

import random

from .. import gen

gen.WIDE_RATE = 0   # wide (~100 operation) instances: too costly here / not needed
from ..drive import Run, gen_history_case
from . import _snap

ID = "C09"
LEVEL = "fault_enumeration"
RULE = (
    "for each seeded history (dispatcher carrying every built-in observer and a "
    "residual graph updater; and the single-instance environment) EVERY kind of "
    "invalid request is injected at EVERY position 0..N: already-scheduled "
    "operation, operation ahead of its job's next one, ready operation on an "
    "ineligible in-range machine, machine id == num_machines / huge / -1 / "
    "-num_machines-1, machine None for a flexible operation; env.step for a "
    "finished job, job id out of range, ineligible machine, -1 on a flexible "
    "operation. Each must raise, leave a deep snapshot (schedule, vectors, all "
    "query answers, subscriber list, every observer's public state, graph, env "
    "observation) unchanged, notify nobody, and the remaining history must produce "
    "the same trace as a twin run that never saw the request. distinct = (instance, "
    "history, position, kind); non-trivial = injection made in a state with at "
    "least one operation scheduled and one unscheduled"
)
ANCHORS = [
    "job_shop_lib.dispatching._dispatcher:Dispatcher.dispatch",
    "job_shop_lib.dispatching._dispatcher:Dispatcher.is_operation_ready",
    "job_shop_lib.dispatching._dispatcher:Dispatcher.next_operation",
    "job_shop_lib._scheduled_operation:ScheduledOperation.__init__",
    "job_shop_lib._schedule:Schedule.add",
    "job_shop_lib.reinforcement_learning._single_job_shop_graph_env:SingleJobShopGraphEnv.step",
    "job_shop_lib.reinforcement_learning._multi_job_shop_graph_env:MultiJobShopGraphEnv.step",
]
ASSUMPTIONS = [
    "negative job ids passed to env.step are Python-valid indices and are not judged",
    "any exception type counts as 'raises'",
]
REQUIRED_COUNTERS = {"blind_injections": 300, "multi_env_injections": 200, "injections": 2000, "env_injections": 200, "twin_comparisons": 30,
                     "kind_already_scheduled": 50, "kind_ahead_of_next": 50,
                     "kind_ineligible_machine": 50, "kind_machine_out_of_range": 50,
                     "kind_machine_minus_one": 50, "kind_none_machine_flexible": 10,
                     "kind_env_finished_job": 10}
WORKERS = {"quick": 1, "thorough": 14}


def gen_cases(ctx):
    rng = ctx.rng
    for i in range(ctx.scale(500, 72000)):
        c = gen_history_case(rng, max_jobs=rng.choice([2, 3, 4]), max_machines=rng.choice([2, 3, 4]),
                             classes=gen.INSTANCE_CLASSES + ["flexible"])
        c["kind"] = "dispatcher" if i % 3 else "env"
        c["blind"] = i % 4 == 1   # no cached query is issued by the harness before an injection
        yield c
    for i in range(ctx.scale(40, 4800)):
        yield {"kind": "multi_env", "seed": rng.randrange(10**6), "instance": {"cls": "generated"},
               "policy": "random", "filter": None,
               "recirc": rng.random() < 0.3}


class Spy:
    """Recording observer: counts notifications (must stay silent on rejects)."""
    def __new__(cls, d):
        from job_shop_lib.dispatching import DispatcherObserver

        class _Spy(DispatcherObserver):
            _is_singleton = False
            def __init__(self, dispatcher):
                super().__init__(dispatcher)
                self.updates = 0
                self.resets = 0
            def update(self, scheduled_operation):
                self.updates += 1
            def reset(self):
                self.resets += 1
        return _Spy(d)


def invalid_requests(run, rng):
    """(kind, op_or_None, machine) requests that the reference model rejects."""
    r = run.r
    out = []
    M = r.num_machines
    sched = r.scheduled()
    if sched:
        o = rng.choice(sched)
        out.append(("already_scheduled", o, rng.choice(r.op_machines[o])))
        if len(sched) > 1:
            o = sched[-1]
            out.append(("already_scheduled", o, r.op_machines[o][0]))
    ahead = [o for o in r.unscheduled() if not r.is_ready(o)]
    if ahead:
        o = rng.choice(ahead)
        out.append(("ahead_of_next", o, rng.choice(r.op_machines[o])))
        two = [o for o in ahead if r.op_pos[o] >= r.job_next[r.op_job[o]] + 2]
        if two:
            o = rng.choice(two)
            out.append(("ahead_of_next", o, r.op_machines[o][0]))
    for o in r.ready():
        inel = [m for m in range(M) if m not in r.op_machines[o]]
        if inel:
            out.append(("ineligible_machine", o, rng.choice(inel)))
        out.append(("machine_out_of_range", o, M))
        out.append(("machine_out_of_range", o, M + 1000))
        out.append(("machine_minus_one", o, -1))
        # negative ids that would wrap around to an eligible machine are out of range all the same
        wrap = [mm - M for mm in r.op_machines[o]]
        out.append(("machine_negative_wrapping_to_eligible", o, rng.choice(wrap)))
        out.append(("machine_out_of_range", o, -M - 1))
        if len(r.op_machines[o]) > 1:
            out.append(("none_machine_flexible", o, None))
    return out


def raw_state(d):
    """State read without calling any (cached) query."""
    return ([[(so.operation.operation_id, so.start_time, so.machine_id) for so in lst]
             for lst in d.schedule.schedule],
            list(d.machine_next_available_time), list(d.job_next_available_time),
            list(d.job_next_operation_index), [id(x) for x in d.subscribers],
            id(d.ready_operations_filter))


def run_blind_case(ctx, case):
    """Injections with cold caches: the harness issues no query, neither before the rejected
    request nor between steps; only raw state is read, and the final schedule is compared with
    a twin that never saw an invalid request."""
    rng = random.Random(case["seed"])
    inst = case["instance"]
    A = Run(inst, case.get("filter"))
    B = Run(inst, case.get("filter"))
    spy = Spy(A.d)
    pos = 0
    lookahead = case["seed"] % 2 == 0
    if case["seed"] % 3 == 0 and not A.done():
        # an earlier (partial or complete) episode without any invalid request, then reset(): the
        # injections of the judged episode start before its first dispatch
        for _ in range(rng.randint(1, len(A.ops))):
            if A.done():
                break
            o = rng.choice(A.r.ready()); m = rng.choice(A.r.op_machines[o])
            A.dispatch(o, m); B.dispatch(o, m)
        A.d.reset(); A.r.reset(); B.d.reset(); B.r.reset()
        ctx.count("judged_episode_follows_a_reset")
    while True:
        if lookahead and not A.done() and rng.random() < 0.4:
            # a deep copy of the dispatcher is advanced (look-ahead): what the original accepts and
            # refuses afterwards is unchanged
            import copy
            dup = copy.deepcopy(A.d)
            rr = A.r.clone()
            for _ in range(rng.randint(1, 2)):
                if rr.complete():
                    break
                o9 = rng.choice(rr.ready()); m9 = rng.choice(rr.op_machines[o9])
                dup.dispatch(dup.instance.jobs[rr.op_job[o9]][rr.op_pos[o9]], m9)
                rr.apply(o9, m9)
            ctx.count("lookahead_copies_advanced")
        for kind, o, m in invalid_requests(A, rng):
            before = raw_state(A.d)
            upd = spy.updates
            raised = None
            try:
                A.d.dispatch(A.op(o), m)
            except Exception as e:
                raised = type(e).__name__
            ctx.count("injections"); ctx.count("blind_injections"); ctx.count("kind_" + kind)
            w = {"fault": kind, "op": o, "machine": m, "position": pos, "blind": True,
                 "history": list(A.r.history), "raised": raised}
            if raised is None:
                ctx.violation("c09_invalid_request_accepted", w)
                return
            if raw_state(A.d) != before or spy.updates != upd:
                ctx.violation("c09_state_changed_by_rejected_request", w)
            if A.r.scheduled() and A.r.unscheduled():
                ctx.distinct.add(f"blind:{hash((gen.fingerprint(inst), tuple(A.r.history), kind, o, m))}")
        if A.done():
            break
        ready = A.r.ready()
        o = rng.choice(ready)
        m = rng.choice(A.r.op_machines[o])
        A.dispatch(o, m); B.dispatch(o, m)
        pos += 1
        sa, sb = raw_state(A.d)[:4], raw_state(B.d)[:4]
        if sa != sb:
            ctx.violation("c09_later_behaviour_differs_from_twin",
                          {"blind": True, "step": pos, "with_rejections": sa[0], "twin": sb[0],
                           "history": list(B.r.history)})
            return
    ctx.count("twin_comparisons")
    ctx.evaluations += 1


def discarded_candidates(ctx, case):
    """Earlier in the same process a decoder threw away malformed job sequences (a job id that
    occurs more often than the job has operations, an id out of range, a cycle): whatever it
    raised was caught."""
    if case["seed"] % 4 != 1:
        return
    from job_shop_lib import Schedule
    rng = random.Random(case["seed"] + 1)
    instance = gen.build(case["instance"])
    M, J = instance.num_machines, instance.num_jobs
    for _ in range(3):
        seqs = [[rng.randrange(J + (1 if rng.random() < 0.2 else 0)) for _ in range(rng.randint(0, 4))]
                for _ in range(M)]
        try:
            Schedule.from_job_sequences(instance, seqs)
        except Exception:
            ctx.count("malformed_sequences_discarded_before_the_injections")


def run_dispatcher_case(ctx, case):
    discarded_candidates(ctx, case)
    if case.get("blind"):
        return run_blind_case(ctx, case)
    rng = random.Random(case["seed"])
    inst = case["instance"]
    A = Run(inst, case.get("filter"))
    B = Run(inst, case.get("filter"))  # twin: never sees an invalid request
    obsA = _snap.full_observer_set(A.d)
    _snap.full_observer_set(B.d)
    spy = Spy(A.d)
    traceA, traceB = [], []
    pos = 0
    nontrivial = 0
    if case["seed"] % 3 == 0 and not A.done():
        for _ in range(rng.randint(1, len(A.ops))):
            if A.done():
                break
            o, m = B.choose(rng, "random_ready")
            A.dispatch(o, m); B.dispatch(o, m)
        A.d.reset(); A.r.reset(); B.d.reset(); B.r.reset()
        ctx.count("judged_episode_follows_a_reset")
    while True:
        # ---- inject every kind at this position
        for kind, o, m in invalid_requests(A, rng):
            before = _snap.dispatcher_state(A.d)
            upd = spy.updates
            raised = None
            try:
                A.d.dispatch(A.op(o), m)
            except Exception as e:  # any exception type is a rejection
                raised = type(e).__name__
            after = _snap.dispatcher_state(A.d)
            ctx.count("injections")
            ctx.count("kind_" + kind)
            ctx.count("raised_" + str(raised))
            w = {"fault": kind, "op": o, "machine": m, "position": pos,
                 "history": list(A.r.history), "raised": raised}
            if raised is None:
                ctx.violation("c09_invalid_request_accepted", w)
                return
            if before != after:
                w["changed"] = _snap.diff_keys(before, after)[:12]
                ctx.violation("c09_state_changed_by_rejected_request", w)
            if spy.updates != upd:
                ctx.violation("c09_observers_notified_on_rejection", w)
            if A.r.scheduled() and A.r.unscheduled():
                nontrivial += 1
                ctx.distinct.add(f"{hash((gen.fingerprint(inst), tuple(A.r.history), kind, o, m))}")
        # ---- the same kinds of request issued through a rule solver's step(): a user-written
        # machine chooser that answers with a machine the operation is not eligible for
        if not A.done():
            from job_shop_lib.dispatching.rules import DispatchingRuleSolver

            def bad_chooser(dispatcher, operation):
                inel = [mm for mm in range(A.r.num_machines + 1) if mm not in operation.machines]
                return inel[0]      # the smallest such id (it may look like a list index)
            bad_solver = DispatchingRuleSolver(
                "shortest_processing_time", bad_chooser,
                ready_operations_filter=[None, "dominated_operations"][pos % 2])
            before = _snap.dispatcher_state(A.d)
            upd = spy.updates
            raised = None
            try:
                bad_solver.step(A.d)
            except Exception as e:
                raised = type(e).__name__
            ctx.count("injections"); ctx.count("kind_solver_step_with_ineligible_machine")
            w = {"fault": "solver.step with a machine chooser returning an ineligible machine",
                 "position": pos, "history": list(A.r.history), "raised": raised}
            if raised is None:
                ctx.violation("c09_invalid_request_accepted", w)
                return
            after = _snap.dispatcher_state(A.d)
            if before != after:
                w["changed"] = _snap.diff_keys(before, after)[:12]
                ctx.violation("c09_state_changed_by_rejected_request", w)
            if spy.updates != upd:
                ctx.violation("c09_observers_notified_on_rejection", w)
        if A.done():
            break
        # ---- valid step on both twins
        pol = case["policy"]
        o, m = B.choose(random.Random(case["seed"] * 1000003 + pos), pol if pol != "mixed" else "random_ready")
        A.dispatch(o, m)
        B.dispatch(o, m)
        pos += 1
        sa, sb = _snap.dispatcher_state(A.d), _snap.dispatcher_state(B.d)
        # subscribers differ by identity and A has one extra spy: compare by value
        sa.pop("subscribers"); sb.pop("subscribers")
        sa.pop("configured_filter", None); sb.pop("configured_filter", None)
        sa["observers"] = [s for s in sa["observers"] if s["type"] != "_Spy"]
        traceA.append(sa); traceB.append(sb)
    ctx.count("twin_comparisons")
    if traceA != traceB:
        k = next(i for i, (x, y) in enumerate(zip(traceA, traceB)) if x != y)
        ctx.violation("c09_later_behaviour_differs_from_twin",
                      {"first_divergent_step": k,
                       "changed": _snap.diff_keys(traceA[k], traceB[k])[:12],
                       "history": list(B.r.history)})
    ctx.evaluations += 1
    if len(ctx.samples) < 3:
        ctx.samples.append({"instance": inst, "filter": case.get("filter"),
                            "history": list(B.r.history), "injected_per_position": "all kinds"})


def make_env(inst, filt, rng):
    from job_shop_lib.dispatching import DispatcherObserverConfig
    from job_shop_lib.dispatching.feature_observers import FeatureObserverType
    from job_shop_lib.graphs import build_agent_task_graph, build_disjunctive_graph
    from job_shop_lib.reinforcement_learning import SingleJobShopGraphEnv

    instance = gen.build(inst)
    builder = rng.choice([build_agent_task_graph, build_disjunctive_graph])
    types = [FeatureObserverType.IS_READY, FeatureObserverType.DURATION,
             FeatureObserverType.IS_SCHEDULED, FeatureObserverType.POSITION_IN_JOB,
             FeatureObserverType.REMAINING_OPERATIONS, FeatureObserverType.IS_COMPLETED]
    kw = {}
    if rng.random() < 0.4:
        # lean configuration: no component that brings an unscheduled-operations observer along
        from job_shop_lib.graphs.graph_updaters import ResidualGraphUpdater
        types = [FeatureObserverType.IS_READY, FeatureObserverType.DURATION]
        kw["graph_updater_config"] = DispatcherObserverConfig(
            ResidualGraphUpdater, kwargs={"remove_completed_machine_nodes": False,
                                          "remove_completed_job_nodes": False})
    cfgs = [DispatcherObserverConfig(t) for t in types]
    return SingleJobShopGraphEnv(builder(instance), cfgs,
                                 ready_operations_filter=gen.make_filter(filt), **kw), instance


def env_snapshot(env, subscribers=False):
    st = _snap.dispatcher_state(env.dispatcher)
    if not subscribers:
        st.pop("subscribers"); st.pop("configured_filter", None)   # object identities: comparable only within one environment
    else:
        st["subscriber_types"] = [type(x).__name__ for x in env.dispatcher.subscribers]
    st["obs"] = _snap.obs_state(env.get_observation())
    st["graph"] = _snap.graph_state(env.job_shop_graph)
    st["rewards"] = list(env.reward_function.rewards)
    return st


def run_env_case(ctx, case):
    from ..ref import Ref

    rng = random.Random(case["seed"])
    inst = case["instance"]
    envA, _ = make_env(inst, case.get("filter"), random.Random(case["seed"]))
    envB, _ = make_env(inst, case.get("filter"), random.Random(case["seed"]))
    envA.reset(); envB.reset()
    r = Ref(inst)
    M, J = r.num_machines, r.num_jobs
    pos = 0
    trace_ok = True
    while True:
        bad = []
        for j in range(J):
            if r.job_next[j] >= len(r.job_ops[j]):
                bad.append(("env_finished_job", (j, -1)))
                bad.append(("env_finished_job", (j, 0)))
            else:
                o = r.job_ops[j][r.job_next[j]]
                inel = [m for m in range(M) if m not in r.op_machines[o]]
                if inel:
                    bad.append(("env_ineligible_machine", (j, rng.choice(inel))))
                bad.append(("env_machine_out_of_range", (j, M)))
                bad.append(("env_machine_out_of_range", (j, -2)))
                if len(r.op_machines[o]) > 1:
                    bad.append(("env_minus_one_flexible", (j, -1)))
                # ids far outside the range, handed over as a numpy int64 array (they would be valid
                # ids if they were wrapped to 32 bits)
                import numpy as np
                mm = r.op_machines[o][0]
                bad.append(("env_job_plus_2_to_32", np.array([j + 2**32, mm], dtype=np.int64)))
                bad.append(("env_machine_minus_2_to_32", np.array([j, mm - 2**32], dtype=np.int64)))
        bad.append(("env_job_out_of_range", (J, -1)))
        bad.append(("env_job_out_of_range", (J + 7, 0)))
        for kind, action in bad:
            before = env_snapshot(envA, True)
            raised = None
            try:
                envA.step(action)
            except Exception as e:
                raised = type(e).__name__
            after = env_snapshot(envA, True)
            ctx.count("env_injections")
            ctx.count("kind_" + kind)
            w = {"fault": kind, "action": [int(x) for x in action], "position": pos,
                 "history": list(r.history), "raised": raised}
            if raised is None:
                ctx.violation("c09_env_invalid_step_accepted", w)
                return
            if before != after:
                w["changed"] = _snap.diff_keys(before, after)[:12]
                ctx.violation("c09_env_state_changed_by_rejected_step", w)
            if r.scheduled() and r.unscheduled():
                ctx.distinct.add(f"{hash((gen.fingerprint(inst), tuple(r.history), kind, tuple(int(x) for x in action)))}")
        if r.complete():
            break
        avail = envB.dispatcher.available_operations()
        op = rng.choice(avail)
        m = rng.choice(op.machines)
        act = (op.job_id, m if len(op.machines) > 1 or rng.random() < 0.5 else -1)
        ra = envA.step(act)
        rb = envB.step(act)
        r.apply(op.operation_id, m)
        pos += 1
        if (_snap.obs_state(ra[0]), ra[1:4]) != (_snap.obs_state(rb[0]), rb[1:4]) \
                or env_snapshot(envA) != env_snapshot(envB):
            trace_ok = False
            ctx.violation("c09_env_later_behaviour_differs_from_twin",
                          {"step": pos, "history": list(r.history)})
            break
    ctx.count("twin_comparisons")
    ctx.evaluations += 1
    if len(ctx.samples) < 3:
        ctx.samples.append({"env_instance": inst, "history": list(r.history)})


def run_multi_env_case(ctx, case):
    """Invalid steps on the multi-instance environment (its own step() path)."""
    from job_shop_lib.dispatching import DispatcherObserverConfig
    from job_shop_lib.generation import GeneralInstanceGenerator
    from job_shop_lib.reinforcement_learning import MultiJobShopGraphEnv
    from ..ref import Ref
    rng = random.Random(case["seed"])
    g = GeneralInstanceGenerator(num_jobs=(2, 4), num_machines=(2, 4), duration_range=(1, 9),
                                 allow_recirculation=False, seed=case["seed"])
    env = MultiJobShopGraphEnv(g, [DispatcherObserverConfig("is_ready"), DispatcherObserverConfig("duration")])
    for episode in range(2):
        env.reset()
        I = env.instance
        inst = {"durations": [[op.duration for op in job] for job in I.jobs],
                "machines": [[list(op.machines) for op in job] for job in I.jobs]}
        r = Ref(inst)
        M, J = r.num_machines, r.num_jobs
        while True:
            bad = []
            for j in range(J):
                if r.job_next[j] >= len(r.job_ops[j]):
                    bad.append(("env_finished_job", (j, -1)))
                else:
                    o = r.job_ops[j][r.job_next[j]]
                    inel = [m for m in range(M) if m not in r.op_machines[o]]
                    if inel:
                        bad.append(("env_ineligible_machine", (j, rng.choice(inel))))
                    # ids beyond this episode's instance (it may be smaller than the maximum size)
                    bad.append(("env_machine_out_of_range", (j, M)))
                    bad.append(("env_machine_out_of_range", (j, M + 1)))
                    bad.append(("env_machine_out_of_range", (j, -2)))
            bad.append(("env_job_out_of_range", (J, -1)))
            for kind, action in bad:
                inner = env.single_job_shop_graph_env
                before = env_snapshot(inner, True)
                raised = None
                try:
                    env.step(action)
                except Exception as e:
                    raised = type(e).__name__
                ctx.count("multi_env_injections")
                ctx.count("kind_" + kind)
                w = {"fault": kind, "action": action, "history": list(r.history), "raised": raised,
                     "instance": inst, "env": "multi"}
                if raised is None:
                    ctx.violation("c09_env_invalid_step_accepted", w)
                    return
                if env_snapshot(env.single_job_shop_graph_env, True) != before:
                    ctx.violation("c09_env_state_changed_by_rejected_step", w)
                if r.scheduled() and r.unscheduled():
                    ctx.distinct.add(f"multi:{hash((str(inst), tuple(r.history), kind, action))}")
            if r.complete():
                break
            op = rng.choice(env.dispatcher.available_operations())
            m = rng.choice(op.machines)
            env.step((op.job_id, m))
            r.apply(op.operation_id, m)
    ctx.evaluations += 1


def run_case(ctx, case):
    if case["kind"] == "dispatcher":
        run_dispatcher_case(ctx, case)
    elif case["kind"] == "multi_env":
        run_multi_env_case(ctx, case)
    else:
        run_env_case(ctx, case)
    ctx.count("class_" + case["instance"]["cls"])
