"""Shared workload: the dispatcher as users meet it inside the environments and the rule solver.

`multi_env_episodes` drives a MultiJobShopGraphEnv whose ready-operations filter was given to the
constructor, left at its default, set to None, or changed later through the documented setter, over
several episodes; after every reset / step it hands the caller a `Run` (real dispatcher of the
current episode + reference model + the filter that is supposed to be in force) so that each
property applies its own judgement.  `solver_driven_history` lets a DispatchingRuleSolver perform
some of the steps of a history on a dispatcher the caller built (solver.step / solver.solve with a
dispatcher argument)."""

from __future__ import annotations

import random

from .. import gen
from ..drive import Run
from ..ref import Ref

FILTER_CHOICES = ["default", "none", "dominated_operations", "non_idle_machines",
                  "non_immediate_machines", "non_immediate_operations"]


def _spec(name):
    if name == "none":
        return None
    if name == "default":
        return {"names": ["dominated_operations"], "form": "function"}
    return {"names": [name], "form": "function"}


def gen_multi_case(rng):
    style = rng.choice(["classic", "classic", "zero"])
    return {"kind": "multi_env_filter", "seed": rng.randrange(2**31), "instance": {"cls": "generated"},
            "generator": {"num_jobs": [2, rng.randint(3, 4)], "num_machines": [2, rng.randint(2, 4)],
                          "duration_range": [0, 4] if style == "zero" else [1, rng.choice([4, 9])],
                          "seed": rng.randrange(10**6)},
            "constructor_filter": rng.choice(FILTER_CHOICES),
            # the filter may be replaced through the setter before episode 1 or 2
            "setter": rng.choice([None, None, [rng.choice([0, 1]), rng.choice(FILTER_CHOICES[1:])]]),
            # ... or in the middle of an episode: [episode, after how many steps, new filter]
            "setter_mid": rng.choice([None, None, [rng.choice([0, 1, 2]), rng.choice([1, 2, 3]),
                                                   rng.choice(FILTER_CHOICES[1:])]]),
            "episodes": 3}


def multi_env_episodes(ctx, case):
    """Yields (event, run, info) with event in {"reset", "step", "filter_changed"}; `run.filter_names`
    is the filter that must be in force, `info` the dictionary returned by env.step (None after a
    reset or a filter change)."""
    from job_shop_lib.dispatching import DispatcherObserverConfig
    from job_shop_lib.generation import GeneralInstanceGenerator
    from job_shop_lib.reinforcement_learning import MultiJobShopGraphEnv

    rng = random.Random(case["seed"])
    gp = dict(case["generator"])
    for k in ("num_jobs", "num_machines", "duration_range"):
        gp[k] = tuple(gp[k])
    g = GeneralInstanceGenerator(**gp)
    kw = {}
    current = case["constructor_filter"]
    if current != "default":
        kw["ready_operations_filter"] = gen.make_filter(_spec(current))
    env = MultiJobShopGraphEnv(g, [DispatcherObserverConfig("is_ready")], **kw)
    for ep in range(case["episodes"]):
        if case.get("setter") and case["setter"][0] == ep:
            current = case["setter"][1]
            env.ready_operations_filter = gen.make_filter(_spec(current))
            ctx.count("filter_changed_through_the_env_setter")
        env.reset()
        inst = {"cls": "generated",
                "durations": [[op.duration for op in job] for job in env.dispatcher.instance.jobs],
                "machines": [[list(op.machines) for op in job] for job in env.dispatcher.instance.jobs]}
        run = Run(inst, _spec(current), dispatcher=env.dispatcher, instance=env.dispatcher.instance)
        ctx.count("multi_env_episodes")
        yield "reset", run, None
        done = False
        steps = 0
        mid = case.get("setter_mid")
        while not done:
            if mid and mid[0] == ep and mid[1] == steps:
                current = mid[2]
                env.ready_operations_filter = gen.make_filter(_spec(current))
                run2 = Run(inst, _spec(current), dispatcher=env.dispatcher, instance=env.dispatcher.instance)
                run2.r = run.r
                run = run2
                ctx.count("filter_changed_through_the_env_setter_mid_episode")
                yield "filter_changed", run, None
            steps += 1
            avail = env.dispatcher.available_operations() or env.dispatcher.raw_ready_operations()
            op = rng.choice(avail)
            m = rng.choice(op.machines)
            _, _, done, _, info = env.step((op.job_id, m))
            run.r.apply(op.operation_id, m)
            ctx.count("multi_env_steps")
            yield "step", run, info


def solver_steps(ctx, run, rng, n, prefix):
    """Lets a rule solver (its own default filters, as a user would construct it) perform up to n
    steps on the caller's dispatcher through solver.step; the reference model follows the
    schedule.  Returns the solver (the dispatcher's own filter must be untouched afterwards)."""
    from job_shop_lib.dispatching.rules import DispatchingRuleSolver
    solver = DispatchingRuleSolver(rng.choice(["shortest_processing_time", "most_work_remaining",
                                               "first_come_first_served", "most_operations_remaining"]),
                                   rng.choice(["first", "random"]))
    filt_before = run.d.ready_operations_filter
    for _ in range(n):
        if run.done():
            break
        before = {id(so) for lst in run.d.schedule.schedule for so in lst}
        solver.step(run.d)
        new = [so for lst in run.d.schedule.schedule for so in lst if id(so) not in before]
        if len(new) != 1:
            ctx.violation(prefix + "_solver_step_did_not_schedule_exactly_one_operation", {"new": len(new)})
            return solver
        run.r.apply(new[0].operation.operation_id, new[0].machine_id)
        ctx.count("steps_performed_by_a_rule_solver")
    if run.d.ready_operations_filter is not filt_before:
        ctx.count("solver_changed_the_filter_of_the_callers_dispatcher")
        run.filter_changed_by_solver = True
    return solver


def solver_finish(ctx, run, rng, prefix):
    """The rest of the history is produced by solver.solve(instance, dispatcher) on the caller's
    dispatcher.  Returns the clock values read by an observer after every dispatch (the reference
    model is brought up to date from the recorded history)."""
    from job_shop_lib.dispatching import DispatcherObserver, HistoryObserver
    from job_shop_lib.dispatching.rules import DispatchingRuleSolver

    class ClockProbe(DispatcherObserver):
        _is_singleton = False

        def __init__(self, dispatcher):
            super().__init__(dispatcher)
            self.clock = []

        def update(self, scheduled_operation):
            self.clock.append(self.dispatcher.current_time())

        def reset(self):
            self.clock = []

    hist = run.d.create_or_get_observer(HistoryObserver)
    n0 = len(hist.history)
    probe = ClockProbe(run.d)
    solver = DispatchingRuleSolver(rng.choice(["shortest_processing_time", "most_work_remaining",
                                               "first_come_first_served"]), "first")
    filt_before = run.d.ready_operations_filter
    S = solver.solve(run.instance, run.d)
    ctx.count("histories_finished_by_solver_solve_on_the_callers_dispatcher")
    for so in hist.history[n0:]:
        run.r.apply(so.operation.operation_id, so.machine_id)
    if S is not run.d.schedule:
        ctx.violation(prefix + "_solver_did_not_use_the_callers_dispatcher", {})
    if run.d.ready_operations_filter is not filt_before:
        # not judged by itself (nothing says the solver may not configure the dispatcher it is
        # given); the caller judges what the property is about with the filter now in force
        ctx.count("solver_changed_the_filter_of_the_callers_dispatcher")
        run.filter_changed_by_solver = True
    run.d.unsubscribe(probe)
    return probe.clock
