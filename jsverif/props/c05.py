"""C05 - state queries agree with the schedule, whatever was asked before."""

from __future__ import annotations

import random
from collections import Counter

from .. import gen

gen.WIDE_RATE = 0   # wide (~100 operation) instances only in the dedicated cases below (short query bursts)
from ..drive import Run, gen_history_case, all_histories

ID = "C05"
LEVEL = "exploration"
RULE = (
    "at every state of seeded histories (all instance classes without filter; "
    "positive-duration classes under every filter configuration; random resets "
    "inside histories; built-in, composed and user-written filters) a random sequence of 5-40 queries (the 11 cached "
    "zero-argument queries, with repetition, plus parametrised ones) is issued and "
    "EACH answer is compared with the reference model when it is returned, so "
    "corruption caused by an earlier query is seen by a later one; tiny instances: "
    "all ordered pairs of cached queries from a cold cache. distinct = distinct "
    "(instance, filter, history, query sequence); non-trivial = history has a state "
    "with an ongoing operation or >= 2 ready operations"
)
ANCHORS = [
    "job_shop_lib.dispatching._dispatcher:Dispatcher.current_time",
    "job_shop_lib.dispatching._dispatcher:Dispatcher.available_operations",
    "job_shop_lib.dispatching._dispatcher:Dispatcher.raw_ready_operations",
    "job_shop_lib.dispatching._dispatcher:Dispatcher.unscheduled_operations",
    "job_shop_lib.dispatching._dispatcher:Dispatcher.scheduled_operations",
    "job_shop_lib.dispatching._dispatcher:Dispatcher.available_machines",
    "job_shop_lib.dispatching._dispatcher:Dispatcher.available_jobs",
    "job_shop_lib.dispatching._dispatcher:Dispatcher.completed_operations",
    "job_shop_lib.dispatching._dispatcher:Dispatcher.uncompleted_operations",
    "job_shop_lib.dispatching._dispatcher:Dispatcher.ongoing_operations",
    "job_shop_lib.dispatching._dispatcher:Dispatcher.next_operation",
    "job_shop_lib.dispatching._dispatcher:Dispatcher.earliest_start_time",
    "job_shop_lib.dispatching._dispatcher:Dispatcher.reset",
    "job_shop_lib.dispatching._unscheduled_operations_observer:UnscheduledOperationsObserver.update",
]
ASSUMPTIONS = [
    "is_ongoing() is not judged (docstring and body disagree; not among the listed set queries)",
    "current time = minimum start over the available operations (documented definition), for built-in "
    "filters, their compositions and user-written filter callables; with the dominated filter on "
    "zero-duration instances the available set itself is taken from the library (validated sub-list)",
    "list-valued queries are compared as multisets of operation identities plus 'no duplicates'",
]
REQUIRED_COUNTERS = {"mirror_created_mid_history": 20, "query_answers_checked": 2000, "states": 200, "pair_orders_checked": 100,
                     "checked_uncompleted_operations": 20, "checked_ongoing_operations": 20,
                     "resets_inside_history": 5}
WORKERS = {"quick": 1, "thorough": 14}

ZERO_ARG = [
    "current_time", "available_operations", "raw_ready_operations",
    "unscheduled_operations", "scheduled_operations", "available_machines",
    "available_jobs", "completed_operations", "uncompleted_operations",
    "ongoing_operations", "mirror",
]
PARAM = ["is_scheduled", "next_operation", "earliest_start_time",
         "remaining_duration", "start_time", "is_operation_ready", "min_start_time"]


def gen_cases(ctx):
    rng = ctx.rng
    n = ctx.scale(2500, 360000)
    for i in range(n):
        filt = i % 3 != 0
        c = gen_history_case(
            rng, classes=gen.INSTANCE_CLASSES,
            max_jobs=rng.choice([2, 3, 4, 5]), max_machines=rng.choice([2, 3, 4]),
            filters=filt)
        if filt and rng.random() < 0.3:
            # user-written filter callables (mirrored in the reference model), alone or composed
            names = [rng.choice(gen.CUSTOM_FILTERS)]
            if rng.random() < 0.4:
                names.append(rng.choice(gen.FILTER_NAMES + gen.CUSTOM_FILTERS))
            c["filter"] = {"names": names, "form": "custom"}
            if rng.random() < 0.3:
                # a built-in filter followed by a user filter that may answer [] even for a
                # single candidate: every member of a composite is applied, in order
                first = rng.choice([f for f in gen.FILTER_NAMES
                                    if f != "dominated_operations" or not gen.has_zero(c["instance"])]
                                   + gen.CUSTOM_FILTERS)
                c["filter"] = {"names": [first, gen.HOLDING_FILTER], "form": "custom"}
        if c["instance"].get("cls") == "huge" and i % 2:
            # time values beyond 2**53 (not representable in float64 either): the queries are integer
            # arithmetic all the way
            for job in c["instance"]["durations"]:
                for p in range(len(job)):
                    if job[p] > 2**20:
                        job[p] += 2**53
        if c.get("filter") and i % 7 == 3 and gen.HOLDING_FILTER not in c["filter"]["names"]:
            # the filter is wrapped by user code that fails once in a while
            c["filter"] = dict(c["filter"], flaky=True)
        c["kind"] = "history"
        c["resets"] = rng.random() < 0.25
        # the unscheduled-operations observer may also be created in the middle of a history
        c["mirror_after"] = rng.choice([0, 0, 1, 2, 3, rng.randint(1, 10)])
        yield c
    for i in range(ctx.scale(6, 700)):
        # wide instances (two-digit job / machine ids, ~100 operations), short query bursts
        gen.WIDE_RATE = 1.0
        try:
            c = gen_history_case(rng, classes=["classic", "irregular", "recirc", "flexible", "gap", "zero"],
                                 filters=i % 2 == 0)
        finally:
            gen.WIDE_RATE = 0
        c.update(kind="history", resets=False, mirror_after=rng.choice([0, 5]), burst=[2, 6])
        yield c
    from . import _env_workload as E
    for i in range(ctx.scale(60, 9000)):
        # the same queries as a user meets them inside the multi-instance environment (filter
        # from the constructor, default, None, or changed through the env's setter)
        yield E.gen_multi_case(rng)
    for i in range(ctx.scale(50, 9000)):
        inst = gen.gen_instance(rng, rng.choice(gen.INSTANCE_CLASSES), max_jobs=3,
                                max_machines=3, max_ops=rng.randint(4, 6))
        fs = gen.gen_filter_spec(rng) if not gen.has_zero(inst) and rng.random() < 0.5 else None
        yield {"kind": "pairs", "instance": inst, "filter": fs,
               "seed": rng.randrange(2**31), "histories": 3}


def _ids(ops):
    return [o.operation_id for o in ops]


def check_query(ctx, run: Run, mirror, q, rng, trace):
    """Issue query q on the real dispatcher and compare with the reference."""
    d, r = run.d, run.r
    names = run.filter_names
    if run.exact_filters:
        avail_ref = r.available(names)
    else:
        # dominated filter + zero durations: the documented shortcut is order dependent, so
        # the library's own available list (validated) defines the clock for this state
        lib = [o.operation_id for o in d.available_operations()]
        ready = r.ready()
        if (ready and not lib) or any(x not in ready for x in lib) or len(set(lib)) != len(lib):
            ctx.violation("c05_available_not_a_sublist_of_ready",
                          {"available": lib, "ready": ready, "history": list(r.history)})
        avail_ref = lib
        ctx.count("states_with_library_defined_available_set")
    now = r.min_start(avail_ref)

    def bad(what, got, want):
        ctx.violation("c05_query_mismatch",
                      {"query": q, "what": what, "got": got, "want": want,
                       "queries_before_in_this_state": list(trace),
                       "history": list(r.history), "filter": names})

    def same_objects(ops, ids):
        return all(run.op(i) is o for o, i in zip(ops, ids))

    ctx.count("query_answers_checked")
    ctx.count("checked_" + q)
    if q == "current_time":
        got = d.current_time()
        if got != now:
            bad("value", got, now)
    elif q == "raw_ready_operations":
        got = d.raw_ready_operations()
        if _ids(got) != r.ready() or not same_objects(got, _ids(got)):
            bad("list", _ids(got), r.ready())
    elif q == "available_operations":
        got = d.available_operations()
        want = avail_ref
        if _ids(got) != want or not same_objects(got, _ids(got)):
            bad("list", _ids(got), want)
    elif q == "unscheduled_operations":
        got = d.unscheduled_operations()
        if sorted(_ids(got)) != sorted(r.unscheduled()) or not same_objects(got, _ids(got)):
            bad("multiset", _ids(got), r.unscheduled())
    elif q == "scheduled_operations":
        got = d.scheduled_operations()
        if sorted(_ids(got)) != sorted(r.scheduled()):
            bad("multiset", _ids(got), r.scheduled())
    elif q == "available_machines":
        got = d.available_machines()
        want = sorted({m for o in avail_ref for m in r.op_machines[o]})
        if sorted(got) != want:
            bad("set", got, want)
    elif q == "available_jobs":
        got = d.available_jobs()
        want = sorted({r.op_job[o] for o in avail_ref})
        if sorted(got) != want:
            bad("set", got, want)
    elif q == "completed_operations":
        got = d.completed_operations()
        want = sorted(r.completed(now))
        if sorted(_ids(got)) != want or len(got) != len(want):
            bad("set", sorted(_ids(got)), want)
    elif q == "uncompleted_operations":
        got = d.uncompleted_operations()
        want = sorted(r.unscheduled() + r.ongoing(now))
        if sorted(_ids(got)) != want:
            bad("multiset", sorted(_ids(got)), want)
    elif q == "ongoing_operations":
        got = d.ongoing_operations()
        gi = sorted(so.operation.operation_id for so in got)
        want = sorted(r.ongoing(now))
        if gi != want or any(
                so.start_time != r.start[so.operation.operation_id]
                or so.machine_id != r.machine_of[so.operation.operation_id] for so in got):
            bad("multiset", gi, want)
    elif q == "mirror":
        if mirror is None:
            trace.append(q)
            return
        got = [o.operation_id for o in mirror.unscheduled_operations]
        per_job = [[o.operation_id for o in dq] for dq in mirror.unscheduled_operations_per_job]
        want_per_job = [ids[n:] for ids, n in zip(r.job_ops, r.job_next)]
        if sorted(got) != sorted(r.unscheduled()) or per_job != want_per_job:
            bad("observer mirror", per_job, want_per_job)
        if mirror.num_unscheduled_operations != len(r.unscheduled()):
            bad("observer count", mirror.num_unscheduled_operations, len(r.unscheduled()))
    elif q == "is_scheduled":
        o = rng.randrange(r.num_ops)
        if d.is_scheduled(run.op(o)) != r.is_scheduled(o):
            bad(f"op {o}", d.is_scheduled(run.op(o)), r.is_scheduled(o))
    elif q == "is_operation_ready":
        o = rng.randrange(r.num_ops)
        if d.is_operation_ready(run.op(o)) != r.is_ready(o):
            bad(f"op {o}", d.is_operation_ready(run.op(o)), r.is_ready(o))
    elif q == "next_operation":
        from job_shop_lib.exceptions import ValidationError
        j = rng.randrange(r.num_jobs)
        if r.job_next[j] < len(r.job_ops[j]):
            got = d.next_operation(j)
            if got is not run.op(r.job_ops[j][r.job_next[j]]):
                bad(f"job {j}", got.operation_id, r.job_ops[j][r.job_next[j]])
        else:
            try:
                got = d.next_operation(j)
                bad(f"finished job {j}", "returned " + repr(got), "an exception")
            except Exception:
                pass    # which exception class is not part of the property
    elif q == "earliest_start_time":
        # any operation (also not-ready / scheduled ones): max(min machine free, job free)
        o = rng.choice(r.ready()) if r.ready() and rng.random() < 0.5 else rng.randrange(r.num_ops)
        got = d.earliest_start_time(run.op(o))
        if got != r.est(o):
            bad(f"op {o}", got, r.est(o))
    elif q == "start_time":
        o = rng.choice(r.ready()) if r.ready() and rng.random() < 0.5 else rng.randrange(r.num_ops)
        m = rng.choice(r.op_machines[o])
        got = d.start_time(run.op(o), m)
        if got != r.start_on(o, m):
            bad(f"op {o} machine {m}", got, r.start_on(o, m))
    elif q == "min_start_time":
        pool = r.unscheduled()
        sub = rng.sample(pool, rng.randint(0, len(pool))) if pool else []
        got = d.min_start_time([run.op(o) for o in sub])
        want = r.min_start(sub)
        if got != want:
            bad(f"ops {sub}", got, want)
    elif q == "remaining_duration":
        sos = [so for lst in d.schedule.schedule for so in lst]
        if sos:
            so = rng.choice(sos)
            o = so.operation.operation_id
            want = r.end[o] - max(r.start[o], now)
            got = d.remaining_duration(so)
            if got != want:
                bad(f"op {o}", got, want)
    trace.append(q)


def check_partitions(ctx, run):
    """scheduled/unscheduled partition all; ongoing/completed partition scheduled;
    uncompleted = unscheduled + ongoing (asked on the real dispatcher)."""
    d = run.d
    sched = set(id(o) for o in d.scheduled_operations())
    unsched = [id(o) for o in d.unscheduled_operations()]
    allops = set(id(o) for o in run.ops)
    ongoing = [id(so.operation) for so in d.ongoing_operations()]
    completed = set(id(o) for o in d.completed_operations())
    uncompleted = [id(o) for o in d.uncompleted_operations()]
    ctx.count("partition_checks")
    ok = (
        sched | set(unsched) == allops and not (sched & set(unsched))
        and len(unsched) == len(set(unsched))
        and set(ongoing) | completed == sched and not (set(ongoing) & completed)
        and len(ongoing) == len(set(ongoing))
        and Counter(uncompleted) == Counter(unsched + ongoing)
    )
    if not ok:
        ctx.violation("c05_partition_violated",
                      {"history": list(run.r.history),
                       "sizes": [len(sched), len(unsched), len(ongoing), len(completed), len(uncompleted)]})


def evaluate_a_rule(ctx, run, rng):
    """Built-in rules and score functions are clients of the cached lists too: evaluating one
    between two queries must not change any answer."""
    from job_shop_lib.dispatching.rules import (
        dispatching_rule_factory, score_based_rule, score_based_rule_with_tie_breaker,
        shortest_processing_time_score, most_operations_remaining_score, first_come_first_served_score,
        observer_based_most_work_remaining_rule)
    if run.done() or not run.d.available_operations():
        return
    scores = [shortest_processing_time_score, most_operations_remaining_score,
              first_come_first_served_score]
    which = rng.randrange(8)
    if which < 4:
        rule = dispatching_rule_factory(["shortest_processing_time", "first_come_first_served",
                                         "most_work_remaining", "most_operations_remaining"][which])
    elif which == 4:
        rule = score_based_rule(rng.choice(scores))
    elif which == 5:
        rule = observer_based_most_work_remaining_rule
        if run.d.subscribers and not getattr(run, "observers_attached", False):
            return      # would subscribe a new observer next to the mirror: kept for runs with observers
        if not getattr(run, "observers_attached", False):
            return
    else:
        rule = score_based_rule_with_tie_breaker(rng.sample(scores, rng.randint(1, 3)))
    rule(run.d)
    ctx.count("rule_evaluations_between_queries")


def query_burst(ctx, run, mirror, rng, lo=5, hi=40):
    trace = []
    if isinstance(run.d.ready_operations_filter, gen.Flaky) and rng.random() < 0.5:
        # the user's filter fails once during a query; the caller catches it and asks again
        q0 = rng.choice(["available_operations", "current_time", "available_jobs", "available_machines",
                         "completed_operations", "ongoing_operations"])
        if gen.fail_once(run.d, getattr(run.d, q0)):
            ctx.count("queries_interrupted_by_a_failing_user_filter")
            trace.append(f"<{q0} interrupted by a filter failure>")
    for _ in range(rng.randint(lo, hi)):
        if rng.random() < 0.06:
            evaluate_a_rule(ctx, run, rng)
            trace.append("<rule evaluated>")
        q = rng.choice(ZERO_ARG + ZERO_ARG + PARAM)
        check_query(ctx, run, mirror, q, rng, trace)
    return trace


def attach_observers(ctx, run):
    from job_shop_lib.dispatching.feature_observers import (
        IsReadyObserver, IsScheduledObserver, IsCompletedObserver, DurationObserver,
        RemainingOperationsObserver, EarliestStartTimeObserver, PositionInJobObserver)
    from job_shop_lib.graphs import build_agent_task_graph
    from job_shop_lib.graphs.graph_updaters import ResidualGraphUpdater
    for cls in (IsReadyObserver, IsScheduledObserver, RemainingOperationsObserver, IsCompletedObserver,
                DurationObserver, EarliestStartTimeObserver, PositionInJobObserver):
        cls(run.d)
    ResidualGraphUpdater(run.d, build_agent_task_graph(run.instance))
    run.observers_attached = True


def run_case(ctx, case):
    fs = case.get("filter") or {}
    if gen.HOLDING_FILTER in (fs.get("names") or []):
        # a user filter that answers [] for a non-empty list: the library may serve it (then
        # every answer is judged) or refuse it outright with an error when it empties the list
        from job_shop_lib.exceptions import JobShopLibError
        try:
            return _run_case(ctx, case)
        except JobShopLibError as e:
            if "filter" in str(e).lower() or "empty" in str(e).lower():
                ctx.count("library_refused_an_emptying_user_filter")
                ctx.note_case(case, False)
                return
            raise
    return _run_case(ctx, case)


def _run_multi_env(ctx, case):
    from . import _env_workload as E
    rng = random.Random(case["seed"] + 3)
    for event, run, info in E.multi_env_episodes(ctx, case):
        if event == "filter_changed":
            continue    # answers cached for this state may still be the old filter's: judged from the next dispatch on
        trace = ["<env %s>" % event]
        for q in ("available_operations", "current_time", rng.choice(ZERO_ARG), rng.choice(ZERO_ARG)):
            check_query(ctx, run, None, q, rng, trace)
        if info is not None and run.exact_filters:
            got = _ids(info["available_operations"])
            want = run.r.available(run.filter_names)
            ctx.count("env_info_available_operations_checked")
            if got != want:
                ctx.violation("c05_query_mismatch",
                              {"query": "info['available_operations'] of the multi env", "got": got,
                               "want": want, "history": list(run.r.history), "filter": run.filter_names,
                               "constructor_filter": case["constructor_filter"], "setter": case.get("setter")})
    ctx.note_case(case, True, fingerprint="multi:%s:%s:%s" % (case["seed"], case["constructor_filter"],
                                                              case.get("setter")))


def _run_case(ctx, case):
    from job_shop_lib.dispatching import UnscheduledOperationsObserver

    if case["kind"] == "multi_env_filter":
        return _run_multi_env(ctx, case)
    rng = random.Random(case["seed"])
    if case["kind"] == "history":
        if case["seed"] % 8 == 5:
            # the user's own dispatcher class: its overrides look at the (cached) queries for
            # logging / auditing and then defer to the library
            from job_shop_lib.dispatching import Dispatcher

            class AuditingDispatcher(Dispatcher):
                # (the audit is not re-entered: the library is free to use these very methods
                # inside its queries)
                _auditing = False

                def _audit(self):
                    if self._auditing:
                        return
                    self._auditing = True
                    try:
                        self.available_operations(); self.current_time(); self.ongoing_operations()
                        self.completed_operations(); self.unscheduled_operations(); self.raw_ready_operations()
                    finally:
                        self._auditing = False

                def is_operation_ready(self, operation):
                    self._audit()
                    return super().is_operation_ready(operation)

                def start_time(self, operation, machine_id):
                    self._audit()
                    return super().start_time(operation, machine_id)
            instance0 = gen.build(case["instance"])
            run = Run(case["instance"], case.get("filter"), instance=instance0,
                      dispatcher=AuditingDispatcher(instance0,
                                                    ready_operations_filter=gen.make_filter(case.get("filter"))))
            ctx.count("histories_on_a_user_subclass_of_the_dispatcher")
        else:
            run = Run(case["instance"], case.get("filter"))
        mirror_after = case.get("mirror_after", 0)
        probe = None
        if case["seed"] % 4 == 1:
            # a user observer subscribed BEFORE everything else asks the dispatcher from inside
            # update() / reset(): at that moment the answers already reflect the new state,
            # whatever other observers (not yet notified) hold
            from job_shop_lib.dispatching import DispatcherObserver

            class Probe(DispatcherObserver):
                _is_singleton = False

                def _ask(self):
                    dd = self.dispatcher
                    self.seen = {
                        "unscheduled_operations": sorted(_ids(dd.unscheduled_operations())),
                        "scheduled_operations": sorted(_ids(dd.scheduled_operations())),
                        "raw_ready_operations": _ids(dd.raw_ready_operations()),
                        "uncompleted_minus_ongoing": sorted(
                            set(_ids(dd.uncompleted_operations()))
                            - {so.operation.operation_id for so in dd.ongoing_operations()}),
                    }

                def update(self, scheduled_operation):
                    self._ask()

                def reset(self):
                    self._ask()
            probe = Probe(run.d)
            ctx.count("histories_with_an_early_probing_observer")

        def judge_probe(where):
            if probe is None or not getattr(probe, "seen", None):
                return
            rr = run.r
            want = {"unscheduled_operations": sorted(rr.unscheduled()),
                    "scheduled_operations": sorted(rr.scheduled()),
                    "raw_ready_operations": rr.ready(),
                    "uncompleted_minus_ongoing": sorted(rr.unscheduled())}
            ctx.count("probe_answers_checked", len(want))
            bad = {k: {"got": probe.seen[k], "want": v} for k, v in want.items() if probe.seen[k] != v}
            probe.seen = None
            if bad:
                ctx.violation("c05_query_mismatch",
                              {"query": "asked from inside an observer " + where, "wrong": bad,
                               "history": list(rr.history), "filter": run.filter_names})
        quitter = None
        if case["seed"] % 7 == 3:
            # an observer subscribed BEFORE the unscheduled-operations observer leaves from inside one
            # of its updates: the observers behind it still get that dispatch
            from job_shop_lib.dispatching import DispatcherObserver

            class Quitter(DispatcherObserver):
                _is_singleton = False

                def __init__(self, dispatcher, at):
                    super().__init__(dispatcher)
                    self.at, self.n = at, 0

                def update(self, scheduled_operation):
                    self.n += 1
                    if self.n == self.at and self in self.dispatcher.subscribers:
                        self.dispatcher.unsubscribe(self)

                def reset(self):
                    pass
            quitter = Quitter(run.d, rng.randint(1, 3))
            ctx.count("histories_with_an_observer_leaving_before_the_mirror")
        mirror = UnscheduledOperationsObserver(run.d) if mirror_after == 0 else None
        detach_at = rng.randint(1, max(1, run.r.num_ops - 2)) if case["seed"] % 7 == 5 and mirror is not None else None
        if case["seed"] % 5 == 0 and mirror is not None:
            # built-in observers call the cached queries as well; their use must not disturb answers
            attach_observers(ctx, run)
            ctx.count("histories_with_observers_attached")
        attach_at = None
        if case["seed"] % 5 == 2:
            # ... or they arrive in the middle of the history
            attach_at = rng.randint(1, max(1, run.r.num_ops - 1))
        nontrivial = False
        traces = []
        steps = 0
        sib = sib_mirror = None
        if case["seed"] % 6 == 1:
            # a second dispatcher for the same instance object (and filter object) with its own
            # history and its own queries, interleaved with the first one
            from job_shop_lib.dispatching import Dispatcher
            sib = Run(case["instance"], case.get("filter"), instance=run.instance,
                      dispatcher=Dispatcher(run.instance,
                                            ready_operations_filter=run.d.ready_operations_filter))
            sib_mirror = UnscheduledOperationsObserver(sib.d)
            ctx.count("histories_with_a_sibling_dispatcher")
        lo_b, hi_b = case.get("burst", [5, 40])
        if "burst" in case:
            ctx.count("wide_histories")
        while not run.done():
            ctx.count("states")
            if sib is not None:
                if sib.done():
                    sib.d.reset(); sib.r.reset()
                o9, m9 = sib.choose(rng, rng.choice(gen.POLICIES))
                sib.dispatch(o9, m9)
                query_burst(ctx, sib, sib_mirror, rng, 2, 8)
            traces.append(tuple(query_burst(ctx, run, mirror, rng, lo_b, hi_b)))
            if rng.random() < 0.3:
                check_partitions(ctx, run)
            now = run.r.current_time(run.filter_names) if run.exact_filters else run.r.current_time(None)
            if len(run.r.ready()) >= 2 or run.r.ongoing(now):
                nontrivial = True
            if case.get("resets") and steps > 0 and rng.random() < 0.12:
                run.d.reset()
                run.r.reset()
                judge_probe("reset()")
                ctx.count("resets_inside_history")
                traces.append(("reset",) + tuple(query_burst(ctx, run, mirror, rng, 3, 12)))
            if case["seed"] % 9 == 7 and steps == 1 and probe is None and quitter is None:
                # a deep copy of the dispatcher goes its own way for a few steps; the answers of the
                # original (and of its observers) are those of its own history
                import copy
                dup = Run(case["instance"], case.get("filter"), dispatcher=copy.deepcopy(run.d))
                dup.instance = dup.d.instance
                dup.ops = [op for job in dup.instance.jobs for op in job]
                dup.r = run.r.clone()
                for _ in range(rng.randint(1, 3)):
                    if dup.done():
                        break
                    o8, m8 = dup.choose(rng, "random_ready"); dup.dispatch(o8, m8)
                ctx.count("deep_copies_advanced_mid_history")
                query_burst(ctx, run, mirror, rng, 4, 10)
            pol = case["policy"]
            o, m = run.choose(rng, pol if pol != "mixed" else rng.choice(gen.POLICIES))
            run.dispatch(o, m)
            judge_probe("update()")
            steps += 1
            if attach_at is not None and len(run.r.history) >= attach_at:
                attach_at = None
                attach_observers(ctx, run)
                ctx.count("observers_attached_mid_history")
            if quitter is not None and mirror is not None:
                check_query(ctx, run, mirror, "mirror", rng, ["<an earlier observer may have left during this dispatch>"])
            if detach_at is not None and len(run.r.history) == detach_at and mirror in run.d.subscribers:
                # the observer is unsubscribed, the history goes on, later the dispatcher is asked for
                # such an observer again: it answers with a subscribed, up-to-date one
                run.d.unsubscribe(mirror)
                mirror = None
                ctx.count("mirror_unsubscribed_mid_history")
            elif detach_at is not None and mirror is None and len(run.r.history) > detach_at and rng.random() < 0.6:
                mirror = run.d.create_or_get_observer(UnscheduledOperationsObserver)
                detach_at = None
                ctx.count("mirror_obtained_again_after_unsubscription")
                if not any(x is mirror for x in run.d.subscribers):
                    ctx.violation("c05_query_mismatch",
                                  {"query": "create_or_get_observer(UnscheduledOperationsObserver)",
                                   "what": "returned an observer that is not subscribed",
                                   "history": list(run.r.history)})
                check_query(ctx, run, mirror, "mirror", rng, ["<obtained again after unsubscription>"])
            if mirror is None and detach_at is None and len(run.r.history) >= mirror_after:
                mirror = run.d.create_or_get_observer(UnscheduledOperationsObserver)
                ctx.count("mirror_created_mid_history")
                check_query(ctx, run, mirror, "mirror", rng, ["<created mid-history>"])
            # immediately after dispatch: one targeted query (stale cache)
            check_query(ctx, run, mirror, rng.choice(ZERO_ARG), rng, ["<dispatch>"])
        ctx.count("states")
        traces.append(tuple(query_burst(ctx, run, mirror, rng)))
        check_partitions(ctx, run)
        fp = hash((gen.fingerprint(case["instance"]), str(case.get("filter")),
                   tuple(run.r.history), tuple(traces)))
        ctx.note_case(case, nontrivial, fingerprint=str(fp))
        ctx.count("class_" + case["instance"]["cls"])
    else:  # all ordered pairs of cached queries, each from a cold cache
        inst = case["instance"]
        names = None if case.get("filter") is None else case["filter"]["names"]
        hists = []
        for h in all_histories(inst, names, limit=200):
            hists.append(h)
        rng.shuffle(hists)
        for h in hists[: case["histories"]]:
            for k in range(len(h) + 1):
                for q1 in ZERO_ARG:
                    for q2 in ZERO_ARG:
                        if q1 == q2:
                            continue
                        run = Run(inst, case.get("filter"))
                        mirror = UnscheduledOperationsObserver(run.d)
                        for o, m in h[:k]:
                            # warm q1 before each dispatch as well
                            run.dispatch(o, m)
                        trace = []
                        check_query(ctx, run, mirror, q1, rng, trace)
                        check_query(ctx, run, mirror, q2, rng, trace)
                        check_query(ctx, run, mirror, q1, rng, trace)
                        ctx.count("pair_orders_checked")
        ctx.note_case(case, True)
