"""C19 - generated instances respect the requested shape and seed."""

from __future__ import annotations

import math
import random

from .. import gen

ID = "C19"
LEVEL = "exploration"
RULE = (
    "generator parameter space sampled broadly (job / machine ranges as ints and "
    "tuples, both flags, machines_per_operation as int and tuple, duration ranges "
    "incl. degenerate, seeds, iteration limits, explicit generate(num_jobs, "
    "num_machines)); every generated instance is checked against the shape "
    "predicates of its parameters; per generator: names unique, multi-machine "
    "choices must use machine ids beyond the first k once enough operations were "
    "drawn (false-alarm probability < 1e-9 by construction of the threshold); two "
    "same-seed same-parameter generators, each built and then consumed, must "
    "yield identical sequences; len(list(gen)) == iteration_limit, also on "
    "re-iteration. Only satisfiable combinations are judged. distinct = distinct "
    "parameter sets; non-trivial = ranges are proper intervals or a flag is set"
)
ANCHORS = [
    "job_shop_lib.generation._general_instance_generator:GeneralInstanceGenerator.generate",
    "job_shop_lib.generation._general_instance_generator:GeneralInstanceGenerator.create_random_operation",
    "job_shop_lib.generation._general_instance_generator:GeneralInstanceGenerator._choose_multiple_machines",
    "job_shop_lib.generation._general_instance_generator:GeneralInstanceGenerator._choose_one_machine",
    "job_shop_lib.generation._instance_generator:InstanceGenerator.__init__",
    "job_shop_lib.generation._instance_generator:InstanceGenerator.__next__",
    "job_shop_lib.generation._instance_generator:InstanceGenerator._next_name",
]
ASSUMPTIONS = [
    "two same-seed generators constructed before either is used diverge (global RNG): observed, not judged",
    "allow_less_jobs_than_machines=False is judged only when min_jobs >= min_machines (satisfiable)",
]
REQUIRED_COUNTERS = {"partial_explicit_checks": 100, "seed_zero_generators": 10, "conflicting_flag_cases": 20, "instances_checked": 1500, "seed_twin_pairs": 100, "iteration_checks": 100,
                     "flag_no_less_jobs_instances": 150, "multi_machine_support_checks": 20,
                     "no_recirculation_permutation_checks": 300}
WORKERS = {"quick": 1, "thorough": 14}


def gen_cases(ctx):
    rng = ctx.rng
    for i in range(ctx.scale(3000, 360000)):
        lo_j = rng.randint(1, 6); hi_j = lo_j + rng.choice([0, 0, 1, 3, 5])
        lo_m = rng.randint(1, 6); hi_m = lo_m + rng.choice([0, 0, 1, 3, 5])
        flag = rng.random() < 0.35
        conflict = False
        if flag and rng.random() < 0.7:  # keep the jobs-vs-machines constraint satisfiable
            lo_m = rng.randint(1, lo_j); hi_m = lo_m + rng.choice([0, 1, 3, 6])
        elif flag:
            # machine range may lie (partly) above the job range: then only "jobs >= machines"
            # and "machines <= requested maximum" are judged (the two requests conflict)
            conflict = True
        p = {
            "num_jobs": lo_j if (lo_j == hi_j and rng.random() < 0.5) else [lo_j, hi_j],
            "num_machines": lo_m if (lo_m == hi_m and rng.random() < 0.5) else [lo_m, hi_m],
            "duration_range": rng.choice([[1, 99], [1, 1], [5, 5], [0, 3], [10, 20], [0, 0], [0, 1],
                                          [2**53, 2**53 + 1], [10**16, 10**16 + 5]]),
            "allow_less_jobs_than_machines": not flag,
            "allow_recirculation": rng.random() < 0.4,
            "machines_per_operation": rng.choice([1, 1, 1, [1, 1]]),     # the int or the equivalent pair
            "seed": rng.choice([0, 0, 1, 2**31 - 1] + [rng.randrange(10**6)] * 16),
            "iteration_limit": rng.choice([None, 0, 1, 3, 7]),
        }
        if i % 4 == 3:  # flexible
            k_hi = rng.randint(2, max(2, lo_m)) if lo_m >= 2 else 2
            if rng.random() < 0.4 and hi_m > lo_m:
                k_hi = rng.randint(lo_m + 1, hi_m)     # above the smallest machine count
            k_lo = rng.randint(1, k_hi)
            p["machines_per_operation"] = k_hi if rng.random() < 0.4 else [k_lo, k_hi]
            if lo_m < k_hi and not (hi_m >= k_hi and hi_m > lo_m):
                p["num_machines"] = [k_hi, k_hi + rng.choice([0, 2, 4])]
                if flag:
                    p["num_jobs"] = [k_hi + rng.choice([0, 1]), k_hi + 5]
        if i % 12 == 11 and not conflict and (not flag or i % 48 == 47):
            # many machines (two-digit ids, 16 and more), a count drawn from a range or fixed
            lo16 = rng.randint(16, 22)
            p["num_machines"] = rng.choice([[lo16, lo16 + rng.choice([2, 4, 8])], lo16, [lo16, lo16]])
            jlo = rng.randint(2, 4) if not flag else lo16 + rng.randint(8, 10)
            p["num_jobs"] = [jlo, jlo + rng.choice([0, 2])]
            p["machines_per_operation"] = rng.choice([1, 1, [1, 3], [2, 4], 4])
        if i % 5 == 2:
            p["flag_form"] = ["int", "np"][i % 2]
        yield {"params": p, "draws": 10, "seed": rng.randrange(2**31), "instance": {"cls": "generated"},
               "conflict": conflict}
        if i % 1000 == 7 and not conflict:
            # the same parameters and seed in fresh processes under several hash seeds
            yield {"kind": "hash_seeds", "params": dict(p), "seed": rng.randrange(2**31),
                   "hash_seeds": [0, 1, 2, 3, 5, 8], "instance": {"cls": "generated"}}


def rng_pair(x):
    return (x, x) if isinstance(x, int) else tuple(x)


def make(p):
    from job_shop_lib.generation import GeneralInstanceGenerator
    kw = dict(p)
    form = kw.pop("flag_form", None)
    if form:
        # flags that come out of a configuration file or a numpy comparison: 0 / 1, numpy booleans
        import numpy as np
        conv = int if form == "int" else np.bool_
        for k in ("allow_recirculation", "allow_less_jobs_than_machines"):
            kw[k] = conv(kw[k])
    for k in ("num_jobs", "num_machines", "machines_per_operation", "duration_range"):
        if isinstance(kw[k], list):
            kw[k] = tuple(kw[k])
    return GeneralInstanceGenerator(**kw)


def dump(inst):
    return [[(tuple(op.machines), op.duration) for op in job] for job in inst.jobs]


def check_instance(ctx, p, inst, forced=None, conflict=False):
    jr, mr = rng_pair(p["num_jobs"]), rng_pair(p["num_machines"])
    kr = rng_pair(p["machines_per_operation"])
    dr = tuple(p["duration_range"])
    jobs = dump(inst)
    J = len(jobs)
    errs = []
    lens = {len(j) for j in jobs}
    if forced:
        if J != forced[0]:
            errs.append(f"explicit num_jobs={forced[0]} but {J} jobs")
    elif not jr[0] <= J <= jr[1]:
        errs.append(f"{J} jobs outside {jr}")
    if len(lens) != 1:
        errs.append(f"jobs have different numbers of operations {sorted(lens)}")
        M = max(lens)
    else:
        M = lens.pop()
    if forced:
        if M != forced[1]:
            errs.append(f"explicit num_machines={forced[1]} but {M} operations per job")
    elif not mr[0] <= M <= mr[1]:
        if not (conflict and J < mr[0] and M <= mr[1]):
            errs.append(f"{M} operations per job outside machine range {mr}")
    for job in jobs:
        for ms, d in job:
            if not dr[0] <= d <= dr[1]:
                errs.append(f"duration {d} outside {dr}")
            if any(not (0 <= m < M) for m in ms):
                errs.append(f"machine ids {ms} not below M={M}")
            if len(set(ms)) != len(ms):
                errs.append(f"repeated machine in {ms}")
            if kr[1] > 1:
                if not min(kr[0], M) <= len(ms) <= min(kr[1], M):
                    errs.append(f"{len(ms)} machines per operation outside {kr}")
            elif len(ms) != 1:
                errs.append(f"{len(ms)} machines for a single-machine generator")
    if not p["allow_recirculation"] and kr[1] == 1:
        ctx.count("no_recirculation_permutation_checks")
        for job in jobs:
            if sorted(ms[0] for ms, _ in job) != list(range(M)):
                errs.append("job does not visit each machine exactly once: "
                            + str([ms[0] for ms, _ in job]))
                break
    if not p["allow_less_jobs_than_machines"] and not forced:
        ctx.count("flag_no_less_jobs_instances")
        if J < M:
            errs.append(f"fewer jobs ({J}) than machines ({M}) although disallowed")
    ctx.count("instances_checked")
    return errs, M, jobs


_HASHSEED_SCRIPT = """
import json, sys
from job_shop_lib.generation import GeneralInstanceGenerator
kw = json.loads(sys.argv[1])
for k in ("num_jobs", "num_machines", "machines_per_operation", "duration_range"):
    if isinstance(kw[k], list):
        kw[k] = tuple(kw[k])
g = GeneralInstanceGenerator(**kw)
print(json.dumps([[[(list(op.machines), op.duration) for op in job] for job in g.generate().jobs]
                  for _ in range(4)]))
"""


def across_hash_seeds(ctx, case):
    """Same seed, same sequence - also in another process under another PYTHONHASHSEED."""
    import json
    import os
    import subprocess
    import sys
    p = {k: v for k, v in case["params"].items() if k != "flag_form"}
    outs = {}
    for hs in case["hash_seeds"]:
        pr = subprocess.run([sys.executable, "-c", _HASHSEED_SCRIPT, json.dumps(p)], capture_output=True, text=True,
                            env=dict(os.environ, PYTHONHASHSEED=str(hs)), timeout=300)
        if pr.returncode != 0:
            ctx.violation("c19_generator_failed_under_a_hash_seed", {"params": p, "PYTHONHASHSEED": hs,
                                                                      "error": pr.stderr[-300:]})
            return
        outs[hs] = pr.stdout.strip()
    ctx.count("sequences_compared_across_hash_seeds", len(outs))
    if len(set(outs.values())) > 1:
        a, b = [hs for hs in outs if outs[hs] != outs[case["hash_seeds"][0]]][:1] + [case["hash_seeds"][0]]
        ctx.violation("c19_sequence_depends_on_the_hash_seed",
                      {"params": p, "PYTHONHASHSEED": [b, a], "first": outs[b][:300], "other": outs[a][:300]})
    ctx.note_case(case, True, fingerprint="hashseeds:%s" % case["seed"])


def run_case(ctx, case):
    if case.get("kind") == "hash_seeds":
        return across_hash_seeds(ctx, case)
    p = case["params"]
    rng = random.Random(case["seed"])
    g1 = make(p)
    seq1, names, used, n_multi, min_M = [], [], set(), 0, 10**9
    kr = rng_pair(p["machines_per_operation"])
    for k in range(case["draws"]):
        inst = g1.generate()
        errs, M, jobs = check_instance(ctx, p, inst, conflict=case.get("conflict", False))
        if errs:
            ctx.violation("c19_instance_violates_requested_shape",
                          {"params": p, "errors": errs[:5], "draw": k, "instance": jobs})
            break
        seq1.append(jobs); names.append(inst.name)
        min_M = min(min_M, M)
        for job in jobs:
            for ms, _ in job:
                used.update(ms); n_multi += 1
    if len(set(names)) != len(names):
        ctx.violation("c19_name_reused", {"params": p, "names": names})
    # multi-machine operations must be drawn from all M machines
    if p["seed"] == 0:
        ctx.count("seed_zero_generators")
    if case.get("conflict"):
        ctx.count("conflicting_flag_cases")
    if kr[1] > 1 and min_M > kr[1] and seq1:
        need = math.ceil(9 * math.log(10) / math.log(min_M / kr[1]))
        if n_multi >= need:
            ctx.count("multi_machine_support_checks")
            if max(used) < kr[1]:
                ctx.violation("c19_multi_machine_choice_not_from_all_machines",
                              {"params": p, "operations_drawn": n_multi,
                               "machine_ids_seen": sorted(used), "M_at_least": min_M})
    # generators that mix single- and multi-machine operations: the single machine of an
    # operation is drawn from all M machines too, so within a job two such operations coincide
    # now and then (judged once "never" has probability < 1e-9 under uniform draws)
    if kr[0] == 1 and kr[1] > 1 and seq1:
        g7 = make(p)
        logp, coincidences, n7 = 0.0, 0, 0
        while logp > -21.0 and n7 < 800 and not coincidences:
            jobs7 = dump(g7.generate()); n7 += 1
            M7 = len(jobs7[0])
            for job in jobs7:
                singles = [ms[0] for ms, _ in job if len(ms) == 1]
                if len(set(singles)) < len(singles):
                    coincidences += 1
                for i in range(1, len(singles)):
                    logp += math.log(1 - i / M7) if i < M7 else -50.0
        if coincidences or logp <= -21.0:
            ctx.count("single_machine_coincidence_checks")
        if not coincidences and logp <= -21.0:
            ctx.violation("c19_single_machine_operations_not_drawn_from_all_machines",
                          {"params": p, "instances_drawn": n7,
                           "log_probability_of_no_coincidence_under_uniform_draws": logp})
    # the public range attributes are re-assigned on a generator that was already used: the
    # following instances lie inside the new ranges
    if case["seed"] % 6 == 1 and p["allow_less_jobs_than_machines"] and kr[1] == 1:
        gr = make(p)
        gr.generate()
        new_j = (jr0 := rng_pair(p["num_jobs"]))[1] + rng.randint(1, 3)
        gr.num_jobs_range = (new_j, new_j + 1)
        new_m = rng_pair(p["num_machines"])[1] + rng.randint(1, 2)
        gr.num_machines_range = (new_m, new_m)
        p2 = dict(p, num_jobs=[new_j, new_j + 1], num_machines=[new_m, new_m])
        ctx.count("ranges_reassigned_on_a_used_generator")
        for _ in range(3):
            errs, _, jobs = check_instance(ctx, p2, gr.generate())
            if errs:
                ctx.violation("c19_instance_violates_requested_shape",
                              {"params": p2, "errors": errs[:5], "instance": jobs,
                               "where": "after num_jobs_range / num_machines_range were re-assigned"})
                break
    # two generators alive at the same time do not share counters: names and iteration budgets
    ga = make(p)
    first_name = ga.generate().name
    gb = make(dict(p, seed=(p["seed"] + 1) % (2**31)))
    gb.generate()
    second_name = ga.generate().name
    ctx.count("two_live_generators_checks")
    if first_name == second_name:
        ctx.violation("c19_name_reused", {"params": p, "names": [first_name, second_name],
                                          "where": "another generator was constructed in between"})
    if p["iteration_limit"] and case["seed"] % 3 == 0:
        gc_, gd = make(p), make(p)
        n_pairs = sum(1 for _ in zip(gc_, gd))
        if n_pairs != p["iteration_limit"]:
            ctx.violation("c19_iteration_count", {"params": p, "yielded": n_pairs,
                                                  "where": "two generators iterated in lock-step (zip)"})
    # a generator handed to the multi-instance environment keeps its configuration
    if case["seed"] % 12 == 0 and kr[1] == 1 and not p["allow_recirculation"] \
            and rng_pair(p["num_machines"])[1] <= 8 and rng_pair(p["num_jobs"])[1] <= 8:
        from job_shop_lib.dispatching import DispatcherObserverConfig
        from job_shop_lib.reinforcement_learning import MultiJobShopGraphEnv
        from job_shop_lib.exceptions import ValidationError as _VE
        ge = make(p)
        try:
            env = MultiJobShopGraphEnv(ge, [DispatcherObserverConfig("is_ready")])
        except _VE:
            env = None      # the env asks for a maximum-size instance the flag forbids: refused
            ctx.count("multi_env_refused_the_generator")
        ctx.count("generators_handed_to_the_multi_env")
        for _ in range(3 if env is not None else 0):
            env.reset()
            for inst_e in (env.dispatcher.instance, ge.generate()):
                errs, _, jobs = check_instance(ctx, p, inst_e, conflict=case.get("conflict", False))
                if errs:
                    ctx.violation("c19_instance_violates_requested_shape",
                                  {"params": p, "errors": errs[:5], "instance": jobs,
                                   "where": "after the generator was handed to MultiJobShopGraphEnv"})
                    break
    # same seed, same parameters, built and then consumed -> identical sequence
    g2 = make(p)
    seq2 = [dump(g2.generate()) for _ in range(len(seq1))]
    ctx.count("seed_twin_pairs")
    if seq1 != seq2:
        ctx.violation("c19_same_seed_different_sequence", {"params": p})
    # explicit sizes
    J = max(rng.randint(2, 5), kr[1]); M = rng.randint(kr[1], J)  # satisfiable: k <= M <= J
    inst = make(p).generate(num_jobs=J, num_machines=M)
    errs, _, jobs = check_instance(ctx, p, inst, forced=(J, M))
    if errs:
        ctx.violation("c19_explicit_size_not_honoured",
                      {"params": p, "errors": errs[:5], "asked": [J, M], "instance": jobs})
    # names stay unique also when sizes are given explicitly, repeatedly
    g5 = make(p)
    Jx = max(2, kr[1]); Mx = max(1, kr[1])
    if p["allow_less_jobs_than_machines"] or Jx >= Mx:
        nm = [g5.generate(num_jobs=Jx, num_machines=Mx).name, g5.generate().name,
              g5.generate(num_jobs=Jx, num_machines=Mx).name, g5.generate(num_jobs=Jx, num_machines=Mx).name]
        ctx.count("explicit_size_name_checks")
        if len(set(nm)) != len(nm):
            ctx.violation("c19_name_reused", {"params": p, "names": nm, "where": "explicit sizes"})
    # ... when the generator was check-pointed (pickle / deep copy) in the middle of the work and the
    # work goes on with the restored object
    if case["seed"] % 5 == 1:
        import copy
        import pickle
        g8 = make(p)
        before = [g8.generate().name for _ in range(3)]
        try:
            g9 = pickle.loads(pickle.dumps(g8)) if case["seed"] % 2 else copy.deepcopy(g8)
        except Exception:
            g9 = None       # not every generator can be pickled; nothing to judge then
        if g9 is not None:
            after = [g9.generate().name for _ in range(3)]
            ctx.count("name_checks_across_a_checkpoint_of_the_generator")
            if len(set(before + after)) != 6:
                ctx.violation("c19_name_reused", {"params": p, "names": before + after,
                                                  "where": "generator restored from a pickle / deep copy"})
    if case["seed"] % 97 == 5:
        # a long run with a long name suffix: 1100 names, all different
        from job_shop_lib.generation import GeneralInstanceGenerator
        gl = GeneralInstanceGenerator(num_jobs=1, num_machines=1, duration_range=(1, 2),
                                      name_suffix="experiment_2026_10_03_lr_0p1", seed=case["seed"] % 1000)
        long_names = [gl.generate().name for _ in range(1100)]
        ctx.count("long_runs_of_one_generator")
        if len(set(long_names)) != len(long_names):
            dup = [n for n in set(long_names) if long_names.count(n) > 1][:3]
            ctx.violation("c19_name_reused", {"where": "1100 instances from one generator, 28-character suffix",
                                              "reused": dup})
    # ... and when a request that cannot be honoured (fewer jobs than machines where that is not
    # allowed) was refused between successful ones
    if not p["allow_less_jobs_than_machines"]:
        g7 = make(p)
        nm7 = []
        refused = 0
        for step in range(5):
            if step in (0, 2, 3):
                try:
                    nm7.append(g7.generate(num_jobs=1, num_machines=3).name)
                except Exception:
                    refused += 1
            else:
                nm7.append(g7.generate().name)
        nm7.append(g7.generate().name)
        ctx.count("name_checks_with_refused_requests_in_between")
        ctx.count("explicit_requests_refused", refused)
        if len(set(nm7)) != len(nm7):
            ctx.violation("c19_name_reused", {"params": p, "names": nm7,
                                              "where": "refused explicit requests in between"})
    # only one size given explicitly: the other one is drawn from its range; a request that
    # cannot be honoured may be refused with ValidationError, never answered out of range
    from job_shop_lib.exceptions import ValidationError
    jr, mr = rng_pair(p["num_jobs"]), rng_pair(p["num_machines"])
    for which in ("machines", "jobs"):
        val = rng.randint(max(1, kr[1]), max(9, kr[1] + 1))
        try:
            inst = (make(p).generate(num_machines=val) if which == "machines"
                    else make(p).generate(num_jobs=val))
        except ValidationError:
            ctx.count("partial_explicit_refused")
            continue
        jobs = dump(inst)
        ctx.count("partial_explicit_checks")
        Jn, Mn = len(jobs), len(jobs[0])
        errs = []
        if which == "machines":
            if Mn != val:
                errs.append(f"asked for {val} machines, got {Mn} operations per job")
            if not jr[0] <= Jn <= jr[1]:
                errs.append(f"{Jn} jobs drawn outside the requested range {jr}")
        else:
            if Jn != val:
                errs.append(f"asked for {val} jobs, got {Jn}")
            if not mr[0] <= Mn <= mr[1] and not (not p["allow_less_jobs_than_machines"] and val < mr[0] and Mn <= mr[1]):
                errs.append(f"{Mn} machines drawn outside the requested range {mr}")
        if not p["allow_less_jobs_than_machines"] and Jn < Mn:
            errs.append(f"fewer jobs ({Jn}) than machines ({Mn}) although disallowed")
        if any(len(j) != Mn for j in jobs) or any(m >= Mn for j in jobs for ms, _ in j for m in ms):
            errs.append("jobs of unequal length or machine id >= M")
        if errs:
            ctx.violation("c19_partial_explicit_size", {"params": p, "which": which, "value": val,
                                                        "errors": errs})
    # iteration protocol
    if p["iteration_limit"] is not None:
        ctx.count("iteration_checks")
        g3 = make(p)
        try:
            n_a = len(list(g3)); n_b = len(list(g3)); len(g3)
        except Exception as e:
            ctx.violation("c19_iteration_raised", {"params": p, "error": repr(e)[:200]})
            n_a = n_b = p["iteration_limit"]
        if p["iteration_limit"] == 0:
            ctx.count("iteration_limit_zero")
        got_names = [i.name for i in make(p)]
        try:
            len_ok = len(g3) == p["iteration_limit"]
        except Exception:
            len_ok = False
        if n_a != p["iteration_limit"] or n_b != p["iteration_limit"] or not len_ok:
            ctx.violation("c19_iteration_count", {"params": p, "first": n_a, "second": n_b})
        if len(set(got_names)) != len(got_names):
            ctx.violation("c19_name_reused", {"params": p, "names": got_names})
        # two passes over one generator with direct generate() calls in between: no name twice
        g6 = make(p)
        nm6 = [i.name for i in g6] + [g6.generate().name] + [i.name for i in g6] + [g6.generate().name]
        ctx.count("two_pass_name_checks")
        if len(set(nm6)) != len(nm6):
            ctx.violation("c19_name_reused", {"params": p, "names": nm6,
                                              "where": "second pass over the same generator"})
        # direct generate() calls in the body of the loop do not use up the iteration
        g8 = make(p)
        n_e = 0
        for _ in g8:
            n_e += 1
            g8.generate()
            if n_e > p["iteration_limit"] + 3:
                break
        ctx.count("iterations_with_direct_generate_calls")
        if n_e != p["iteration_limit"]:
            ctx.violation("c19_iteration_count", {"params": p, "yielded": n_e,
                                                  "where": "generate() called inside the loop body"})
        # an iteration abandoned half-way (break / next(iter(...))) followed by a new one
        g4 = make(p)
        taken = 0
        for _ in g4:
            taken += 1
            if taken >= max(1, p["iteration_limit"] // 2):
                break
        n_c = len(list(g4))
        it = iter(g4); next(it, None)
        n_d = sum(1 for _ in g4)
        ctx.count("abandoned_iterations")
        if n_c != p["iteration_limit"] or n_d != p["iteration_limit"]:
            ctx.violation("c19_iteration_count_after_abandoned_iteration",
                          {"params": p, "after_break": n_c, "after_peek": n_d, "taken_before_break": taken})
    nontrivial = (isinstance(p["num_jobs"], list) and p["num_jobs"][0] != p["num_jobs"][1]) or \
        (isinstance(p["num_machines"], list) and p["num_machines"][0] != p["num_machines"][1]) or \
        not p["allow_less_jobs_than_machines"] or p["allow_recirculation"] or kr[1] > 1
    ctx.note_case(case, nontrivial, fingerprint=str(hash(str(sorted(p.items())))))
