"""C04 - dispatching-rule solvers always finish and follow their rule."""

from __future__ import annotations

import math
import random
import time

from .. import gen
from ..ref import Ref, feasibility_errors, schedule_triples

ID = "C04"
LEVEL = "exploration"
RULE = (
    "configuration matrix {5 built-in rules + observer-based MWKR + rules composed "
    "from the built-in scoring functions (1-3 functions, any order)} x {first, "
    "random chooser} x {no filter, each built-in filter, the default pair, random "
    "compositions} on seeded instances of all classes (flexible, zero durations), "
    "through solve(I), solve(I, dispatcher) and __call__. solver.dispatching_rule "
    "and solver.machine_chooser are wrapped by recorders: at every step the "
    "selection must be (by identity) in the reference available set and optimal "
    "under the rule's documented criterion, the chooser's machine eligible; exactly "
    "N steps, result complete+feasible (independent checker), metadata elapsed_time "
    "in [0, measured wall] and solved_by == class name. Direct and observer-based "
    "MWKR are compared in every state of random histories. distinct = (instance, "
    "rule, chooser, filter, api); non-trivial = some step had >= 2 available "
    "operations with different criterion values"
)
ANCHORS = [
    "job_shop_lib.dispatching.rules._dispatching_rule_solver:DispatchingRuleSolver.solve",
    "job_shop_lib.dispatching.rules._dispatching_rule_solver:DispatchingRuleSolver.step",
    "job_shop_lib.dispatching.rules._dispatching_rules_functions:shortest_processing_time_rule",
    "job_shop_lib.dispatching.rules._dispatching_rules_functions:first_come_first_served_rule",
    "job_shop_lib.dispatching.rules._dispatching_rules_functions:most_work_remaining_rule",
    "job_shop_lib.dispatching.rules._dispatching_rules_functions:most_operations_remaining_rule",
    "job_shop_lib.dispatching.rules._dispatching_rules_functions:random_operation_rule",
    "job_shop_lib.dispatching.rules._dispatching_rules_functions:score_based_rule",
    "job_shop_lib.dispatching.rules._dispatching_rules_functions:score_based_rule_with_tie_breaker",
    "job_shop_lib.dispatching.rules._dispatching_rules_functions:MostWorkRemainingScorer.__call__",
    "job_shop_lib.dispatching.rules._dispatching_rule_factory:dispatching_rule_factory",
    "job_shop_lib.dispatching.rules._machine_chooser_factory:machine_chooser_factory",
    "job_shop_lib._base_solver:BaseSolver.__call__",
]
ASSUMPTIONS = [
    "most-operations-remaining is accepted under either reading of 'remaining' (unscheduled "
    "or not yet completed): the docstring does not choose",
    "with the dominated filter on zero-duration instances the available set is the library's "
    "own list, validated as a non-empty sub-list of the ready operations",
]
REQUIRED_COUNTERS = {"cross_rule_evaluations": 1000, "steps_checked": 2000, "solver_runs": 200, "call_metadata_checks": 50,
                     "composed_rule_steps": 200, "mwkr_twin_states": 200,
                     "rule_shortest_processing_time": 20, "rule_first_come_first_served": 20,
                     "rule_most_work_remaining": 20, "rule_most_operations_remaining": 20,
                     "rule_random": 20}
WORKERS = {"quick": 1, "thorough": 14}
RULES = ["shortest_processing_time", "first_come_first_served", "most_work_remaining",
         "most_operations_remaining", "random"]
SCORES = ["spt", "fcfs", "mwkr", "mor", "random"]


def gen_cases(ctx):
    rng = ctx.rng
    for i in range(ctx.scale(5000, 900000)):
        inst = gen.gen_instance(rng, None, max_jobs=rng.choice([2, 3, 4, 5, 6, 10]), max_machines=rng.choice([2, 3, 4, 5]))
        r = rng.random()
        if r < 0.55:
            rule = {"type": "builtin", "name": RULES[i % 5], "form": rng.choice(["str", "enum", "upper", "callable"])}
        elif r < 0.65:
            rule = {"type": "observer_mwkr"}
        elif r < 0.75:
            rule = {"type": "score", "scores": [rng.choice(SCORES[:4])]}
        else:
            k = rng.randint(1, 3)
            rule = {"type": "tie", "scores": [rng.choice(SCORES) for _ in range(k)]}
        f = rng.random()
        if f < 0.15:
            filt = "default"
        else:
            filt = gen.gen_filter_spec(rng)
        yield {"kind": "solver", "instance": inst, "rule": rule,
               "chooser": rng.choice(["first", "random", "FIRST", "callable_last"]),
               "filter": filt, "api": rng.choice(["solve", "solve_dispatcher", "call", "solve_partial"]),
               "seed": rng.randrange(2**31)}
    for i in range(ctx.scale(1500, 240000)):
        if i % 3 == 0:
            # many jobs (ids >= 8) and tiny durations: exact ties on remaining work between jobs
            inst = gen.gen_instance(rng, rng.choice(["classic", "irregular", "flexible", "recirc"]),
                                    max_jobs=rng.choice([9, 10, 12]), max_machines=rng.choice([2, 3]))
            for job in inst["durations"]:
                for p in range(len(job)):
                    job[p] = rng.choice([1, 1, 2])
        else:
            inst = gen.gen_instance(rng, None, max_jobs=rng.choice([2, 3, 4, 5]), max_machines=rng.choice([2, 3, 4]))
        yield {"kind": "mwkr_twin", "instance": inst, "filter": gen.gen_filter_spec(rng),
               "seed": rng.randrange(2**31)}


def witnesses(ctx):
    """Known-finding witness: float32 resolution of the observer-based MWKR rule."""
    yield {"kind": "mwkr_twin", "filter": None, "seed": 1479390188,
           "instance": {"cls": "huge",
                        "durations": [[8, 67108950, 8], [67108983, 6], [67108937, 67108895, 67108931, 48],
                                      [67108982, 67108879, 67108957], [67108953, 54, 67108984]],
                        "machines": [[[1], [1], [0]], [[0], [0]], [[0], [0], [0], [0]],
                                     [[0], [1], [0]], [[0], [0], [0]]]}}


def score_functions():
    from job_shop_lib.dispatching.rules import (
        shortest_processing_time_score, first_come_first_served_score,
        MostWorkRemainingScorer, most_operations_remaining_score, random_score)
    return {"spt": shortest_processing_time_score, "fcfs": first_come_first_served_score,
            "mwkr": MostWorkRemainingScorer(), "mor": most_operations_remaining_score,
            "random": random_score}


class Tracker:
    """Keeps a reference model in step with a dispatcher through an observer."""

    def __init__(self, inst, dispatcher):
        from job_shop_lib.dispatching import DispatcherObserver
        self.r = Ref(inst)
        outer = self

        class _Rec(DispatcherObserver):
            _is_singleton = False
            def update(self, so):
                outer.r.apply(so.operation.operation_id, so.machine_id)
            def reset(self):
                outer.r.reset()
        for lst_op in sorted(
                [so for lst in dispatcher.schedule.schedule for so in lst],
                key=lambda so: (so.start_time, so.position_in_job)):
            pass
        self.obs = _Rec(dispatcher)


def criterion_values(rule, r: Ref, avail, now_ongoing):
    """criterion value per available op id (higher is better) or None (random)."""
    if rule == "shortest_processing_time":
        return {o: -r.op_dur[o] for o in avail}
    if rule == "first_come_first_served":
        return {o: -r.op_pos[o] for o in avail}
    if rule == "most_work_remaining":
        rem = [sum(r.op_dur[o] for o in ids[n:]) for ids, n in zip(r.job_ops, r.job_next)]
        return {o: rem[r.op_job[o]] for o in avail}
    return None


def run_solver_case(ctx, case):
    from job_shop_lib.dispatching import Dispatcher, ReadyOperationsFilterType
    from job_shop_lib.dispatching.rules import (
        DispatchingRuleSolver, DispatchingRuleType, dispatching_rule_factory,
        observer_based_most_work_remaining_rule, score_based_rule,
        score_based_rule_with_tie_breaker)

    rng = random.Random(case["seed"])
    inst = case["instance"]
    instance = gen.build(inst)
    ops = [o for job in instance.jobs for o in job]
    rule = case["rule"]
    # ------------------------------------------------------------ build the solver
    if rule["type"] == "builtin":
        nm = rule["name"]
        arg = {"str": nm, "enum": DispatchingRuleType(nm), "upper": nm.upper(),
               "callable": dispatching_rule_factory(nm)}[rule["form"]]
        label = nm
    elif rule["type"] == "observer_mwkr":
        arg = observer_based_most_work_remaining_rule
        label = "most_work_remaining"
    else:
        sf = score_functions()
        fns = [sf[s] for s in rule["scores"]]
        arg = score_based_rule(fns[0]) if rule["type"] == "score" else score_based_rule_with_tie_breaker(fns)
        label = "composed"
    chooser = case["chooser"]
    ch_arg = (lambda d, op: op.machines[-1]) if chooser == "callable_last" else chooser
    filt = case["filter"]
    kwargs = {}
    if filt == "default":
        names = ["dominated_operations", "non_idle_machines"]
    elif filt is None:
        kwargs["ready_operations_filter"] = None
        names = None
    else:
        names = filt["names"]
        form = filt["form"]
        if len(names) == 1 and form in ("string", "enum"):
            kwargs["ready_operations_filter"] = names[0] if form == "string" else ReadyOperationsFilterType(names[0])
        elif form in ("string", "enum", "composite"):
            kwargs["ready_operations_filter"] = [
                n if (form == "string" or (form == "composite" and k % 2)) else ReadyOperationsFilterType(n)
                for k, n in enumerate(names)]
            if case["seed"] % 5 == 0:
                # any iterable is accepted: here a one-shot iterator
                kwargs["ready_operations_filter"] = iter(kwargs["ready_operations_filter"])
                ctx.count("filters_given_as_a_one_shot_iterator")
        else:
            kwargs["ready_operations_filter"] = gen.make_filter(filt)
    if isinstance(kwargs.get("ready_operations_filter"), list) and len(set(names)) >= 2 and (
            case["seed"] % 3 == 2 or gen.is_flexible(inst)):
        # another solver of the same process was configured with the same filters in the opposite
        # order (and used once) before this one is built
        decoy = DispatchingRuleSolver("first_come_first_served", "first",
                                      ready_operations_filter=list(reversed(kwargs["ready_operations_filter"])))
        decoy.solve(instance)
        ctx.count("solvers_built_after_one_with_the_same_filters_in_reverse_order")
    solver_cls = DispatchingRuleSolver
    if case["seed"] % 3 == 0:
        # a user's own solver class derived from the library's: its name goes into the metadata
        class TunedRuleSolver(DispatchingRuleSolver):
            pass
        solver_cls = TunedRuleSolver
        ctx.count("subclassed_solver_runs")
    solver = solver_cls(arg, ch_arg, **kwargs)
    ctx.count("solver_runs")
    ctx.count("rule_" + (rule.get("name") or rule["type"]))

    ref0 = Ref(inst)
    exact = not (names and "dominated_operations" in names and ref0.has_zero)
    state = {"tracker": None, "steps": 0, "last_op": None, "nontrivial": False}
    real_rule, real_chooser = solver.dispatching_rule, solver.machine_chooser
    N = ref0.num_ops
    sf_h = score_functions() if rule["type"] in ("score", "tie") else None

    def rule_rec(dispatcher):
        if state["tracker"] is None:
            state["tracker"] = Tracker(inst, dispatcher)
        r = state["tracker"].r
        if "created_at" not in state:
            state["created_at"] = len(r.history)   # observers of observer-based rules are born here
        state["steps"] += 1
        if state["steps"] > ref0.num_ops + 1:
            raise RuntimeError("step budget exceeded")
        if exact:
            avail = r.available(names)
            lib_avail = [o.operation_id for o in dispatcher.available_operations()]
            if lib_avail != avail:
                ctx.violation("c04_available_set_differs", {"lib": lib_avail, "ref": avail,
                                                            "history": list(r.history)})
        else:
            avail = [o.operation_id for o in dispatcher.available_operations()]
            if not avail or any(a not in r.ready() for a in avail):
                ctx.violation("c04_available_not_subset_of_ready", {"avail": avail})
        # harness-side evaluation of the library's scoring functions in this state
        score_vecs = None
        if sf_h is not None:
            score_vecs = []
            for s in rule["scores"]:
                if s == "random":
                    score_vecs.append(None)
                else:
                    score_vecs.append(list(sf_h[s](dispatcher)))
        op = real_rule(dispatcher)
        ctx.count("steps_checked")
        w = {"rule": rule, "filter": names, "history": list(r.history), "available": avail,
             "selected": getattr(op, "operation_id", repr(op)),
             "observer_created_at": state["created_at"]}
        if not any(op is ops[a] for a in avail):
            ctx.violation("c04_selected_operation_not_available", w)
            state["last_op"] = op
            return op
        oid = op.operation_id
        if rule["type"] in ("builtin", "observer_mwkr"):
            now = r.current_time(names) if exact else dispatcher.current_time()
            if label == "most_operations_remaining":
                unsched = [len(ids) - n for ids, n in zip(r.job_ops, r.job_next)]
                ongoing = [0] * r.num_jobs
                for o in r.ongoing(now):
                    ongoing[r.op_job[o]] += 1
                a = {o: unsched[r.op_job[o]] for o in avail}
                b = {o: unsched[r.op_job[o]] + ongoing[r.op_job[o]] for o in avail}
                ok = a[oid] == max(a.values()) or b[oid] == max(b.values())
                if len(set(b.values())) > 1:
                    state["nontrivial"] = True
                if not ok:
                    ctx.violation("c04_selection_not_best_under_rule", dict(w, values=[a, b]))
            else:
                vals = criterion_values(label, r, avail, None)
                if vals is not None:
                    if len(set(vals.values())) > 1:
                        state["nontrivial"] = True
                    if vals[oid] != max(vals.values()):
                        ctx.violation("c04_selection_not_best_under_rule", dict(w, values=vals))
                elif len(avail) > 1:
                    state["nontrivial"] = True
        else:
            ctx.count("composed_rule_steps")
            # lexicographically best on the scores before the first random one
            prefix = []
            for v in score_vecs:
                if v is None:
                    break
                prefix.append(v)
            if prefix:
                key = lambda o: tuple(float(v[r.op_job[o]]) for v in prefix)
                best = max(key(o) for o in avail)
                if len({key(o) for o in avail}) > 1:
                    state["nontrivial"] = True
                if key(oid) != best:
                    ctx.violation("c04_composed_rule_not_lexicographically_best",
                                  dict(w, keys={o: key(o) for o in avail}))
        state["last_op"] = op
        return op

    def chooser_rec(dispatcher, operation):
        m = real_chooser(dispatcher, operation)
        ctx.count("chooser_calls")
        if operation is not state["last_op"]:
            ctx.violation("c04_chooser_got_other_operation", {})
        if m not in operation.machines:
            ctx.violation("c04_chooser_machine_not_eligible",
                          {"machine": m, "eligible": list(operation.machines)})
        if str(chooser).lower() == "first" and m != operation.machines[0]:
            ctx.violation("c04_first_chooser_not_first", {"machine": m, "eligible": list(operation.machines)})
        return m

    solver.dispatching_rule = rule_rec
    solver.machine_chooser = chooser_rec
    # the same solver object (and rule object) may serve a second run on the same instance object:
    # it is judged like the first
    rounds = 2 if case["seed"] % 4 == 1 and case["api"] in ("solve", "call") else 1
    N0 = N
    for round_no in range(rounds):
        if round_no:
            state.update(tracker=None, steps=0, last_op=None)
            N = N0
            ctx.count("second_runs_of_the_same_solver_object")
            if case["seed"] % 8 == 1:
                # the solver's public filter attribute is re-assigned between the two runs
                from job_shop_lib.dispatching import ready_operations_filter_factory
                new_name = rng.choice([None, "non_immediate_machines", "non_idle_machines",
                                       "dominated_operations"])
                solver.ready_operations_filter = (None if new_name is None
                                                  else ready_operations_filter_factory(new_name))
                names = None if new_name is None else [new_name]
                exact = not (names and "dominated_operations" in names and ref0.has_zero)
                ctx.count("filter_reassigned_between_runs")
        api = case["api"]
        t0 = time.perf_counter()
        try:
            if api == "solve":
                S = solver.solve(instance)
            elif api == "solve_dispatcher":
                d = Dispatcher(instance, ready_operations_filter=solver.ready_operations_filter)
                if rule["type"] == "observer_mwkr" and case["seed"] % 2:
                    # feature observers that track only the operations already exist on the caller's
                    # dispatcher before the observer-based rule is asked for the first time
                    from job_shop_lib.dispatching.feature_observers import (DurationObserver, FeatureType,
                                                                           IsReadyObserver)
                    DurationObserver(d, feature_types=[FeatureType.OPERATIONS])
                    IsReadyObserver(d, feature_types=[FeatureType.OPERATIONS])
                    ctx.count("operations_only_observers_present_before_the_observer_based_rule")
                if case["seed"] % 3 == 2:
                    # the caller's dispatcher was used before and reset
                    tr0 = Tracker(inst, d)
                    for _ in range(rng.randint(1, N)):
                        o0 = rng.choice(tr0.r.ready())
                        d.dispatch(ops[o0], rng.choice(tr0.r.op_machines[o0]))
                    d.reset()
                    ctx.count("solver_given_a_reset_dispatcher")
                if solver.ready_operations_filter is not None and case["seed"] % 7 == 3:
                    # the caller's dispatcher carries the same filter wrapped by user code that failed
                    # once (the caller caught it) before the solver is asked to take over
                    d.ready_operations_filter = gen.Flaky(solver.ready_operations_filter)
                    if gen.fail_once(d, rng.choice([d.available_operations, d.current_time])):
                        ctx.count("solver_given_a_dispatcher_whose_filter_failed_once")
                S = solver.solve(instance, d)
            elif api == "solve_partial":
                # the solver takes over a dispatcher that already holds a partial schedule
                d = Dispatcher(instance, ready_operations_filter=solver.ready_operations_filter)
                state["tracker"] = Tracker(inst, d)
                pre = rng.randint(1, max(1, N - 1))
                for _ in range(pre):
                    rr = state["tracker"].r
                    o = rng.choice(rr.ready())
                    d.dispatch(ops[o], rng.choice(rr.op_machines[o]))
                N = N - pre
                ctx.count("solver_took_over_partial_schedule")
                if case["seed"] % 3 == 1 and N >= 1:
                    # a deep copy of the partially filled dispatcher is advanced on its own before
                    # the solver continues on the original
                    import copy
                    d.unsubscribe(state["tracker"].obs)     # the harness' own recorder stays with the original
                    dup = copy.deepcopy(d)
                    d.subscribe(state["tracker"].obs)
                    rr2 = state["tracker"].r.clone()
                    for _ in range(rng.randint(1, N)):
                        o2 = rng.choice(rr2.ready()); m2 = rng.choice(rr2.op_machines[o2])
                        dup.dispatch(dup.instance.jobs[rr2.op_job[o2]][rr2.op_pos[o2]], m2)
                        rr2.apply(o2, m2)
                    ctx.count("copies_advanced_before_the_solver_continued")
                if solver.ready_operations_filter is not None and case["seed"] % 7 in (3, 5):
                    d.ready_operations_filter = gen.Flaky(solver.ready_operations_filter)
                    if gen.fail_once(d, rng.choice([d.available_operations, d.current_time])):
                        ctx.count("solver_given_a_dispatcher_whose_filter_failed_once")
                S = solver.solve(instance, d)
            else:
                if case["seed"] % 5 == 2:
                    # the system clock is set back while the solver runs (NTP, a VM resumed): the
                    # elapsed time is still a duration
                    real_time = time.time
                    t_fake = [real_time()]

                    def stepping_back():
                        t_fake[0] -= 3600.0
                        return t_fake[0]
                    time.time = stepping_back
                    try:
                        S = solver(instance)
                    finally:
                        time.time = real_time
                    ctx.count("solver_calls_with_the_wall_clock_set_back")
                else:
                    S = solver(instance)
        except Exception as e:
            r = state["tracker"].r if state["tracker"] else ref0
            ctx.violation("c04_solver_raised",
                          {"error": repr(e)[:300], "rule": rule, "filter": names,
                           "history": list(r.history), "chooser": chooser})
            return
        wall = time.perf_counter() - t0
        errs = feasibility_errors(ref0, schedule_triples(S), require_complete=True)
        if errs or not S.is_complete():
            ctx.violation("c04_result_infeasible_or_incomplete", {"errors": errs[:5], "rule": rule})
        if state["steps"] != N:
            ctx.violation("c04_wrong_number_of_steps", {"steps": state["steps"], "operations": N})
        if api == "call":
            ctx.count("call_metadata_checks")
            et = S.metadata.get("elapsed_time")
            if not isinstance(et, float) or not math.isfinite(et) or et < 0 or et > wall + 1e-6:
                ctx.violation("c04_elapsed_time_metadata", {"elapsed_time": et, "measured_wall": wall})
            if S.metadata.get("solved_by") != solver_cls.__name__:
                ctx.violation("c04_solved_by_metadata", {"solved_by": S.metadata.get("solved_by"),
                                                         "solver_class": solver_cls.__name__})
    ctx.note_case(case, state["nontrivial"], fingerprint=str(hash(
        (gen.fingerprint(inst), str(rule), chooser, str(filt), api))))
    ctx.count("class_" + inst["cls"])


def judge_all_rules(ctx, run, rng):
    """Evaluates every built-in rule (and two score-based ones) in a random order in the
    current state and judges each answer - so a side effect of one rule's queries on
    another rule's answer becomes visible."""
    from job_shop_lib.dispatching.rules import (
        shortest_processing_time_rule, first_come_first_served_rule, most_work_remaining_rule,
        most_operations_remaining_rule, random_operation_rule, score_based_rule,
        most_operations_remaining_score, shortest_processing_time_score)
    r, d = run.r, run.d
    rules = [("shortest_processing_time", shortest_processing_time_rule),
             ("first_come_first_served", first_come_first_served_rule),
             ("most_work_remaining", most_work_remaining_rule),
             ("most_operations_remaining", most_operations_remaining_rule),
             ("random", random_operation_rule),
             ("score:mor", score_based_rule(most_operations_remaining_score)),
             ("score:spt", score_based_rule(shortest_processing_time_score))]
    rng.shuffle(rules)
    if run.exact_filters:
        avail = r.available(run.filter_names)
        now = r.min_start(avail)
    else:
        avail = [o.operation_id for o in d.available_operations()]
        now = r.min_start(avail)
    unsched = [len(ids) - n for ids, n in zip(r.job_ops, r.job_next)]
    ongoing = [0] * r.num_jobs
    for o in r.ongoing(now):
        ongoing[r.op_job[o]] += 1
    order_names = [n for n, _ in rules]
    for name, fn in rules:
        op = fn(d)
        ctx.count("cross_rule_evaluations")
        w = {"rule": name, "evaluated_in_order": order_names, "history": list(r.history),
             "filter": run.filter_names, "available": avail,
             "selected": getattr(op, "operation_id", repr(op))}
        if not any(op is run.op(a) for a in avail):
            ctx.violation("c04_selected_operation_not_available", w)
            continue
        oid = op.operation_id
        if name in ("shortest_processing_time", "score:spt"):
            vals = {o: -r.op_dur[o] for o in avail}
        elif name == "first_come_first_served":
            vals = {o: -r.op_pos[o] for o in avail}
        elif name == "most_work_remaining":
            rem = [sum(r.op_dur[o] for o in ids[n:]) for ids, n in zip(r.job_ops, r.job_next)]
            vals = {o: rem[r.op_job[o]] for o in avail}
        elif name in ("most_operations_remaining", "score:mor"):
            a = {o: unsched[r.op_job[o]] for o in avail}
            b = {o: unsched[r.op_job[o]] + ongoing[r.op_job[o]] for o in avail}
            if not (a[oid] == max(a.values()) or b[oid] == max(b.values())):
                ctx.violation("c04_selection_not_best_under_rule", dict(w, values=[a, b]))
            continue
        else:
            continue
        if vals[oid] != max(vals.values()):
            ctx.violation("c04_selection_not_best_under_rule", dict(w, values=vals))


def run_mwkr_twin(ctx, case):
    from job_shop_lib.dispatching.rules import (most_work_remaining_rule,
                                                observer_based_most_work_remaining_rule)
    from ..drive import Run
    rng = random.Random(case["seed"])
    run = Run(case["instance"], case.get("filter"))
    order = rng.random() < 0.5
    while not run.done():
        ctx.count("mwkr_twin_states")
        if rng.random() < 0.5:
            judge_all_rules(ctx, run, rng)
        if order:
            a = most_work_remaining_rule(run.d); b = observer_based_most_work_remaining_rule(run.d)
        else:
            b = observer_based_most_work_remaining_rule(run.d); a = most_work_remaining_rule(run.d)
        if a is not b:
            ctx.violation("c04_direct_and_observer_mwkr_differ",
                          {"direct": a.operation_id, "observer": b.operation_id,
                           "available": [o.operation_id for o in run.d.available_operations()],
                           "history": list(run.r.history), "filter": run.filter_names})
        o, m = run.choose(rng, rng.choice(["random_available", "random_ready"]))
        run.dispatch(o, m)
    ctx.note_case(case, gen.competing(case["instance"]), fingerprint=str(hash(
        (gen.fingerprint(case["instance"]), tuple(run.r.history), "twin"))))


def run_case(ctx, case):
    if case["kind"] == "solver":
        run_solver_case(ctx, case)
    else:
        run_mwkr_twin(ctx, case)
