"""C20 - Gantt charts and animations show the schedule that was built."""

from __future__ import annotations

import os
import random
import shutil
import tempfile

import numpy as np

from .. import gen

gen.WIDE_RATE = 0   # wide (~100 operation) instances: too costly here / not needed
from ..drive import Run

ID = "C20"
LEVEL = "exploration"
RULE = (
    "static charts: schedules (partial and complete) of seeded instances of all "
    "classes (zero-width bars, flexible rows, one job, many jobs, unused machine), "
    "xlim given / not given, custom labels; the bars are read back from the "
    "matplotlib artists of the returned Axes (PolyCollection extents, face colours) "
    "and compared with {(machine row, start, end, colour of job)}; colours must be "
    "one-to-one with legend entries; x-axis must end at makespan / requested limit "
    "with the last tick there. Animations: plot_function is the boundary hook - a "
    "wrapper records the schedule it is shown at call k (must be the first k "
    "operations of the history) and, for long histories, returns a figure stamped "
    "with k as a bar code between colour markers; the written GIF (thorough: also "
    "MP4) is decoded with imageio and frame i must carry code i+1; history lengths "
    "1, 9, 10, 11, 99, 100, 101, 120 (thorough adds 999, 1000, 1001); via "
    "create_gantt_chart_gif, GanttChartCreator.create_gif and env.render. distinct "
    "= distinct (schedule, options) / (history length, entry point); non-trivial = "
    ">= 2 jobs and >= 3 bars, or history length >= 10"
)
ANCHORS = [
    "job_shop_lib.visualization._plot_gantt_chart:plot_gantt_chart",
    "job_shop_lib.visualization._plot_gantt_chart:_plot_machine_schedules",
    "job_shop_lib.visualization._plot_gantt_chart:_plot_scheduled_operation",
    "job_shop_lib.visualization._plot_gantt_chart:_configure_axes",
    "job_shop_lib.visualization._plot_gantt_chart:_configure_legend",
    "job_shop_lib.visualization._gantt_chart_video_and_gif_creation:create_gantt_chart_gif",
    "job_shop_lib.visualization._gantt_chart_video_and_gif_creation:create_gantt_chart_frames",
    "job_shop_lib.visualization._gantt_chart_video_and_gif_creation:_save_frame",
    "job_shop_lib.visualization._gantt_chart_video_and_gif_creation:_load_images",
    "job_shop_lib.visualization._gantt_chart_video_and_gif_creation:create_gif_from_frames",
    "job_shop_lib.visualization._gantt_chart_creator:GanttChartCreator.create_gif",
]
ASSUMPTIONS = [
    "artists are inspected directly (no pixel comparison of charts); x-axis not judged when the limit is 0",
    "'any length' is decided at lengths straddling every zero-padding boundary in the frame naming",
]
REQUIRED_COUNTERS = {"two_step_renderings": 4, "charts_checked": 40, "bars_checked": 300, "animation_runs": 8,
                     "frames_decoded": 400, "plot_calls_checked": 400, "long_histories": 3}
WORKERS = {"quick": 3, "thorough": 12}
HARD_TIMEOUT_S = {"quick": 900, "thorough": 5400}
NBITS = 12


def gen_cases(ctx):
    rng = ctx.rng
    for i in range(ctx.scale(200, 12000)):
        inst = gen.gen_instance(rng, None, max_jobs=rng.choice([1, 2, 3, 5, 8]), max_machines=rng.choice([1, 2, 3, 4]))
        yield {"kind": "chart", "instance": inst, "seed": rng.randrange(2**31),
               "partial": rng.random() < 0.4, "xlim": rng.choice([None, None, "plus", "big", "minus"]),
               "labels": rng.random() < 0.3, "cmap": rng.choice(["viridis", "plasma", "tab20"])}
    for i in range(ctx.scale(6, 300)):
        # many machines (two-digit ids) / one crowded machine (>= 50 operations in one row)
        if i % 2 == 0:
            nm = rng.randint(11, 14)
            inst = {"cls": "many_machines",
                    "durations": [[rng.randint(1, 9) for _ in range(nm)] for _ in range(3)],
                    "machines": [[[m] for m in rng.sample(range(nm), nm)] for _ in range(3)]}
        else:
            nj = rng.randint(50, 60)
            inst = {"cls": "crowded_machine", "durations": [[rng.randint(1, 5)] for _ in range(nj)] + [[2, 3]],
                    "machines": [[[0]] for _ in range(nj)] + [[[1], [0]]]}
        yield {"kind": "chart", "instance": inst, "seed": rng.randrange(2**31) * 3 + 1, "partial": False,
               "xlim": rng.choice([None, "plus"]), "labels": False, "cmap": "viridis",
               "machine_labels": i % 4 == 2}
    lengths = [1, 9, 10, 11, 99, 100, 101, 120]
    if ctx.tier == "thorough":
        lengths += [2, 50, 150, 250, 999, 1000, 1001]
    entries = ["function", "creator", "env"]
    k = 0
    for n in lengths:
        for e in (entries if n <= 120 else ["function"]):
            if k % ctx.nshards == ctx.shard:
                yield {"kind": "animation", "length": n, "entry": e, "seed": rng.randrange(2**31),
                       "stamped": n > 12 or e != "function", "instance": {"cls": "animation"},
                       "video": e == "function" and n in ((11,) if ctx.tier == "quick" else (11, 101, 150))}
            k += 1
    for i in range(ctx.scale(12, 750)):
        inst = gen.gen_instance(rng, None, max_jobs=3, max_machines=3, max_ops=10)
        yield {"kind": "animation_real", "instance": inst, "seed": rng.randrange(2**31)}
    for i in range(ctx.scale(6, 300)):
        # the animation is produced from a solver (possibly a randomised one) instead of a history
        yield {"kind": "animation_solver", "length": rng.choice([6, 12, 25]), "seed": rng.randrange(2**31),
               "rule": ["random", "most_work_remaining", "random"][i % 3],
               "chooser": ["random", "first"][i % 2], "instance": {"cls": "animation"}}
    for i in range(ctx.scale(10, 400)):
        # one partial-chart plotter object draws several schedules one after the other
        inst = gen.gen_instance(rng, rng.choice(["classic", "irregular", "flexible", "recirc"]), max_jobs=4, max_machines=3)
        yield {"kind": "plotter_reuse", "instance": inst, "seed": rng.randrange(2**31)}
    for i in range(ctx.scale(40, 1600)):
        # the chart of the current state requested through a GanttChartCreator, also one that was
        # built for a deep copy of the dispatcher on which the history went on
        inst = gen.gen_instance(rng, rng.choice(["classic", "irregular", "flexible", "recirc", "gap"]),
                                max_jobs=4, max_machines=3)
        yield {"kind": "creator_chart", "instance": inst, "seed": rng.randrange(2**31)}
    for i in range(ctx.scale(6, 300)):
        # an environment renders episode after episode
        yield {"kind": "animation_env_episodes", "length": rng.choice([5, 9, 14]),
               "seed": rng.randrange(2**31), "instance": {"cls": "animation"}}
    for i in range(ctx.scale(6, 300)):
        yield {"kind": "animation_two_step", "length": rng.choice([5, 12, 30]),
               "entry": ["function", "creator"][i % 2], "seed": rng.randrange(2**31),
               "instance": {"cls": "animation"}}


# ------------------------------------------------------------------ charts
def read_bars(ax):
    from matplotlib.collections import PolyCollection
    bars = []
    for coll in ax.collections:
        if not isinstance(coll, PolyCollection):
            continue
        fcs = coll.get_facecolor()
        for i, path in enumerate(coll.get_paths()):
            v = path.vertices
            x0, x1 = float(v[:, 0].min()), float(v[:, 0].max())
            y0, y1 = float(v[:, 1].min()), float(v[:, 1].max())
            # one colour for the whole collection or one per bar (both are valid ways to draw)
            fc = tuple(round(float(c), 6) for c in fcs[i if len(fcs) > 1 else 0])
            bars.append((y0, y1, x0, x1, fc))
    return bars


def _has_number(text, n):
    import re
    return re.search(r"(?<![0-9])%d(?![0-9])" % n, text) is not None


def check_chart(ctx, schedule, ax, want, xlim, labels, where, machine_labels=None):
    """want: list of (machine, start, end, job).  Geometry is judged relative to the chart's own
    row ticks (bar heights, offsets and the wording of default labels are the library's choice):
    one bar per scheduled operation, from its start to its end, in the row whose tick is its
    machine's, in the colour the legend shows for its job."""
    from collections import Counter
    bars = read_bars(ax)
    ctx.count("charts_checked")
    ctx.count("bars_checked", len(bars))
    w = {"where": where, "n_bars": len(bars), "n_ops": len(want)}
    leg = ax.get_legend()
    handles = list(leg.legend_handles) if leg is not None else []
    texts = [t.get_text() for t in leg.get_texts()] if leg is not None else []
    jobs_present = sorted({j for _, _, _, j in want})
    n_jobs = schedule.instance.num_jobs
    # the legend names every job that has a bar (it may list the instance's other jobs as well)
    if len(handles) != len(texts) or len(texts) not in (len(jobs_present), n_jobs):
        ctx.violation("c20_legend_entries", dict(w, got=texts, want_jobs=jobs_present))
        return
    listed = jobs_present if len(texts) == len(jobs_present) else list(range(n_jobs))
    # which legend entry stands for which job
    if labels:
        want_labels = [labels[j] for j in listed]
        if sorted(texts) != sorted(want_labels):
            ctx.violation("c20_legend_entries", dict(w, got=texts, want=want_labels))
            return
        if len(set(want_labels)) == len(want_labels):
            entry_of_job = {j: texts.index(labels[j]) for j in listed}
        else:
            if texts != want_labels:     # repeated label texts: entries are taken in job order
                ctx.violation("c20_legend_entries", dict(w, got=texts, want=want_labels))
                return
            entry_of_job = {j: i for i, j in enumerate(listed)}
    else:
        entry_of_job = {}
        for j in listed:
            hit = [i for i, t in enumerate(texts) if _has_number(t, j)]
            if len(hit) != 1:
                ctx.violation("c20_legend_entries",
                              dict(w, got=texts, note=f"no unique default entry naming job {j}"))
                return
            entry_of_job[j] = hit[0]
        if len(set(entry_of_job.values())) != len(listed):
            ctx.violation("c20_legend_entries", dict(w, got=texts, want_jobs=listed))
            return
    colour_of_job = {j: tuple(round(float(c), 6) for c in handles[i].get_facecolor())
                     for j, i in entry_of_job.items()}
    if len(set(colour_of_job.values())) != len(colour_of_job):
        ctx.violation("c20_legend_colours_not_one_to_one", dict(w, colours=list(colour_of_job.values())))
    # rows
    nm = len(schedule.schedule)
    yt = [float(y) for y in ax.get_yticks()]
    row_labels = [t.get_text() for t in ax.get_yticklabels()]
    if len(yt) != nm or len(set(yt)) != nm:
        ctx.violation("c20_machine_axis", dict(w, yticks=yt, machines=nm))
        return
    if machine_labels is not None:
        if row_labels != machine_labels:
            ctx.violation("c20_machine_row_labels", dict(w, got=row_labels[:16], want=machine_labels[:16]))
    elif any(not _has_number(t, i) for i, t in enumerate(row_labels)) or len(set(row_labels)) != nm:
        ctx.violation("c20_machine_row_labels",
                      dict(w, got=row_labels[:16], want="row i labelled with machine id i"))
    got = Counter()
    for y0, y1, x0, x1, fc in bars:
        rows = [i for i, t in enumerate(yt) if y0 <= t <= y1]
        if len(rows) != 1 or not y1 > y0:
            ctx.violation("c20_bar_not_in_exactly_one_machine_row",
                          dict(w, bar=[y0, y1, x0, x1], row_ticks=yt[:16]))
            return
        got[(rows[0], x0, x1, fc)] += 1
    exp = Counter((m, float(s), float(e), colour_of_job[j]) for m, s, e, j in want)
    if got != exp:
        ctx.violation("c20_bars_differ_from_schedule",
                      dict(w, got=sorted(k[:3] for k in got.elements())[:12],
                           want=sorted(k[:3] for k in exp.elements())[:12],
                           colours_match=sorted(k[3] for k in got.elements()) == sorted(k[3] for k in exp.elements())))
    lo, hi = ax.get_ylim()
    if not all(min(lo, hi) <= b[0] and b[1] <= max(lo, hi) for b in bars):
        ctx.violation("c20_machine_axis", dict(w, ylim=[lo, hi], note="a bar lies outside the y-limits"))
    mk = max((e for _, _, e, _ in want), default=0)
    limit = xlim if xlim is not None else mk
    if limit > 0:
        xl = ax.get_xlim()
        if float(xl[1]) != float(limit) or float(xl[0]) > 0.0:
            ctx.violation("c20_time_axis", dict(w, xlim=list(xl), want_limit=limit))


def run_chart(ctx, case):
    import matplotlib.pyplot as plt
    from job_shop_lib.visualization import plot_gantt_chart
    rng = random.Random(case["seed"])
    run = Run(case["instance"])
    n = run.r.num_ops if not case["partial"] else rng.randint(1, run.r.num_ops)
    for _ in range(n):
        o, m = run.choose(rng, "random_ready")
        run.dispatch(o, m)
    r = run.r
    want = [(r.machine_of[o], r.start[o], r.end[o], r.op_job[o]) for o in r.start]
    mk = r.makespan()
    xlim = {None: None, "plus": mk + rng.randint(1, 7), "big": mk * 3 + 10,
            "minus": max(1, mk - rng.randint(1, max(1, mk // 2)))}[case["xlim"]]
    labels = [f"J<{j}>" for j in range(r.num_jobs)] if case["labels"] else None
    if labels and case["seed"] % 2 and r.num_jobs >= 2:
        labels = [f"family {j // 2}" for j in range(r.num_jobs)]     # two jobs share a label text
        ctx.count("charts_with_repeated_label_texts")
    mlabels = [f"M:{i}" for i in range(r.num_machines)] if case.get("machine_labels") else None
    xlim_arg = xlim
    if xlim is not None and case["seed"] % 3 == 1:
        xlim_arg = np.int64(xlim)      # a limit computed with numpy (e.g. the maximum of an array)
        ctx.count("axis_limits_given_as_numpy_integers")
    fig, ax = plot_gantt_chart(run.d.schedule, xlim=xlim_arg, job_labels=labels, cmap_name=case["cmap"],
                               number_of_x_ticks=rng.choice([15, 3, 7]), machine_labels=mlabels)
    fig2 = None
    try:
        if case["seed"] % 3 == 0:
            # a second chart of the same instance (another schedule, same title) while the first
            # one is still open: each keeps showing its own schedule
            run2 = Run(case["instance"])
            for _ in range(rng.randint(1, run2.r.num_ops)):
                o2, m2 = run2.choose(rng, "random_ready")
                run2.dispatch(o2, m2)
            r2 = run2.r
            want2 = [(r2.machine_of[o], r2.start[o], r2.end[o], r2.op_job[o]) for o in r2.start]
            fig2, ax2 = plot_gantt_chart(run2.d.schedule, job_labels=labels, cmap_name=case["cmap"])
            ctx.count("second_chart_while_first_open")
            check_chart(ctx, run2.d.schedule, ax2, want2, None, labels, "second chart, same title")
        check_chart(ctx, run.d.schedule, ax, want, xlim, labels, "plot_gantt_chart", mlabels)
    finally:
        plt.close(fig)
        if fig2 is not None:
            plt.close(fig2)
    ctx.note_case(case, r.num_jobs >= 2 and len(want) >= 3, fingerprint=str(hash(
        (gen.fingerprint(case["instance"]), tuple(r.history), str(xlim), case["labels"]))))
    ctx.count("class_" + case["instance"]["cls"])


# ------------------------------------------------------------------ animations
def stamped_figure(k):
    """Tiny figure: red marker | NBITS black/white bands (MSB first) | blue marker."""
    from matplotlib.figure import Figure
    cols = np.ones((1, NBITS + 2, 3), dtype=float)
    cols[0, 0] = (1, 0, 0)
    cols[0, -1] = (0, 0, 1)
    for b in range(NBITS):
        if (k >> (NBITS - 1 - b)) & 1:
            cols[0, 1 + b] = (0, 0, 0)
    fig = Figure(figsize=(2.6, 0.4), dpi=50)
    ax = fig.add_axes([0, 0, 1, 1])
    ax.imshow(cols, aspect="auto", interpolation="nearest")
    ax.set_axis_off()
    return fig


def decode(frame):
    a = np.asarray(frame)
    if a.ndim == 2:
        return None
    a = a[..., :3].astype(int)
    row = a[a.shape[0] // 2]
    red = np.where((row[:, 0] > 150) & (row[:, 1] < 110) & (row[:, 2] < 110))[0]
    blue = np.where((row[:, 2] > 150) & (row[:, 0] < 110) & (row[:, 1] < 110))[0]
    if len(red) == 0 or len(blue) == 0:
        return None
    x0, x1 = red.min(), blue.max() + 1
    width = (x1 - x0) / (NBITS + 2)
    k = 0
    for b in range(NBITS):
        x = int(x0 + (1.5 + b) * width)
        k = (k << 1) | (1 if row[x].mean() < 128 else 0)
    return k


def long_instance(n, rng):
    """A 1-machine-per-job-free instance with exactly n operations."""
    jobs = rng.choice([2, 3, 4]) if n >= 4 else 1
    machines = rng.choice([2, 3])
    durations, ms = [[] for _ in range(jobs)], [[] for _ in range(jobs)]
    for i in range(n):
        durations[i % jobs].append(rng.randint(1, 5))
        ms[i % jobs].append([rng.randrange(machines)])
    return {"cls": "long", "durations": durations, "machines": ms}


def run_animation(ctx, case):
    import imageio
    from job_shop_lib.dispatching import HistoryObserver
    from job_shop_lib.visualization import (GanttChartCreator, create_gantt_chart_gif,
                                            create_gantt_chart_video)
    rng = random.Random(case["seed"])
    n = case["length"]
    inst = long_instance(n, rng)
    # (experiment folders are often named after their parameters)
    td = tempfile.mkdtemp(prefix=["jsv-c20-", "jsv-c20[lr=0.1]-", "jsv-c20-a*b-", "jsv-c20 (2)-"][case["seed"] % 4])
    try:
        entry = case["entry"]
        env = None
        if entry == "env":
            from job_shop_lib.dispatching import DispatcherObserverConfig
            from job_shop_lib.graphs import build_agent_task_graph
            from job_shop_lib.reinforcement_learning import SingleJobShopGraphEnv
            instance = gen.build(inst)
            gif_path = os.path.join(td, "env.gif")
            env = SingleJobShopGraphEnv(
                build_agent_task_graph(instance), [DispatcherObserverConfig("is_ready")],
                render_mode="save_gif", ready_operations_filter=None,
                render_config={"gif_config": {"gif_path": gif_path, "fps": 10}})
            env.reset()
            d = env.dispatcher
            run = Run(inst, None, dispatcher=d, instance=instance)
            hist_obs = env.gantt_chart_creator.history_observer
        else:
            run = Run(inst)
            hist_obs = HistoryObserver(run.d)
        while not run.done():
            o, m = run.choose(rng, rng.choice(["random_ready", "round_robin"]))
            run.dispatch(o, m)
        r = run.r
        history = list(hist_obs.history)
        order = [o for o, _ in r.history]
        shown = []

        def plot(schedule, makespan=None, available_operations=None, current_time=None):
            k = len(shown) + 1
            ops_now = sorted((so.operation.operation_id, so.start_time, so.machine_id)
                             for lst in schedule.schedule for so in lst)
            shown.append((ops_now, makespan))
            return stamped_figure(k)

        gif_path = os.path.join(td, "out.gif")
        if entry == "function":
            create_gantt_chart_gif(run.instance, gif_path, plot_function=plot, fps=10,
                                   schedule_history=history)
        elif entry == "creator":
            creator = GanttChartCreator(run.d, gif_config={"gif_path": gif_path, "fps": 10})
            if creator.history_observer is not hist_obs:
                ctx.violation("c20_creator_did_not_reuse_history_observer", {})
            creator.partial_gantt_chart_plotter = plot
            creator.create_gif()
        else:
            gif_path = os.path.join(td, "env.gif")
            env.gantt_chart_creator.partial_gantt_chart_plotter = plot
            env.render()
        ctx.count("animation_runs")
        if n >= 100:
            ctx.count("long_histories")
        check_shown(ctx, r, order, shown, n, entry)
        frames = imageio.mimread(gif_path, memtest=False)
        check_frames(ctx, frames, n, entry, "gif")
        if os.path.isdir(gif_path.replace(".gif", "") + "_frames"):
            ctx.violation("c20_frames_dir_not_removed", {})
        if case.get("video"):
            shown.clear()
            vpath = os.path.join(td, "out.mp4")
            create_gantt_chart_video(run.instance, vpath, plot_function=plot, fps=10,
                                     schedule_history=history)
            check_shown(ctx, r, order, shown, n, "video")
            vframes = imageio.mimread(vpath, memtest=False)
            check_frames(ctx, vframes, n, "function", "mp4")
            ctx.count("videos_decoded")
    finally:
        shutil.rmtree(td, ignore_errors=True)
    ctx.note_case(case, n >= 10, fingerprint=f"{n}:{case['entry']}")


def check_shown(ctx, r, order, shown, n, entry):
    if len(shown) != n:
        ctx.violation("c20_plot_function_call_count", {"calls": len(shown), "history": n, "entry": entry})
        return
    mk = r.makespan()
    for k, (ops_now, makespan) in enumerate(shown, start=1):
        ctx.count("plot_calls_checked")
        want = sorted((o, r.start[o], r.machine_of[o]) for o in order[:k])
        if ops_now != want:
            ctx.violation("c20_frame_k_does_not_show_first_k_operations",
                          {"k": k, "entry": entry, "got": ops_now[:8], "want": want[:8]})
            return
        if makespan not in (mk, None):
            ctx.violation("c20_frame_axis_limit_not_final_makespan", {"k": k, "got": makespan, "want": mk})
            return


def check_frames(ctx, frames, n, entry, fmt):
    if len(frames) != n:
        ctx.violation("c20_written_file_frame_count", {"frames": len(frames), "history": n,
                                                       "entry": entry, "format": fmt})
        return
    codes = []
    for fr in frames:
        codes.append(decode(fr))
        ctx.count("frames_decoded")
    if codes != list(range(1, n + 1)):
        bad = next(i for i, c in enumerate(codes) if c != i + 1)
        ctx.violation("c20_frame_order_in_written_file",
                      {"format": fmt, "entry": entry, "length": n, "first_wrong_position": bad,
                       "codes_there": codes[max(0, bad - 2):bad + 4]})


def run_animation_real(ctx, case):
    """Short histories through the library's own plotter: frame k's artists."""
    import imageio
    import matplotlib.pyplot as plt
    from job_shop_lib.dispatching import HistoryObserver
    from job_shop_lib.visualization import create_gantt_chart_gif, get_partial_gantt_chart_plotter
    rng = random.Random(case["seed"])
    run = Run(case["instance"])
    h = HistoryObserver(run.d)
    while not run.done():
        o, m = run.choose(rng, "random_ready")
        run.dispatch(o, m)
    r = run.r
    order = [o for o, _ in r.history]
    real = get_partial_gantt_chart_plotter()
    calls = []

    def plot(schedule, makespan=None, available_operations=None, current_time=None):
        fig = real(schedule, makespan, available_operations, current_time)
        k = len(calls) + 1
        calls.append(k)
        want = [(r.machine_of[o], r.start[o], r.end[o], r.op_job[o]) for o in order[:k]]
        check_chart(ctx, schedule, fig.axes[0], want, makespan, None, f"frame {k}")
        return fig

    td = tempfile.mkdtemp(prefix="jsv-c20r-")
    try:
        path = os.path.join(td, "real.gif")
        create_gantt_chart_gif(run.instance, path, plot_function=plot, schedule_history=list(h.history),
                               fps=5)
        ctx.count("animation_runs")
        frames = imageio.mimread(path, memtest=False)
        # The GIF encoder merges consecutive identical images (a zero-width or sub-pixel bar
        # does not change the picture), so the number of frames in the file is only an upper
        # bound check here; the exact frame-by-frame check is done with stamped frames.
        if len(calls) != len(order) or not 1 <= len(frames) <= len(order):
            ctx.violation("c20_written_file_frame_count",
                          {"frames": len(frames), "plot_calls": len(calls), "history": len(order),
                           "entry": "real plotter"})
    finally:
        plt.close("all")
        shutil.rmtree(td, ignore_errors=True)
    ctx.note_case(case, len(order) >= 3, fingerprint=str(hash(
        (gen.fingerprint(case["instance"]), tuple(r.history), "real"))))


def run_two_step(ctx, case):
    """Frames kept on disk by an earlier rendering (remove_frames=False, fixed frames_dir)
    must not leak into the animation of a later, different history of the same length."""
    import imageio
    from job_shop_lib.dispatching import HistoryObserver
    from job_shop_lib.visualization import GanttChartCreator, create_gantt_chart_gif
    rng = random.Random(case["seed"])
    n = case["length"]
    inst = long_instance(n, rng)
    td = tempfile.mkdtemp(prefix="jsv-c20t-")
    try:
        frames_dir = os.path.join(td, "frames")
        run = Run(inst)
        hist_obs = HistoryObserver(run.d)
        creator = None
        if case["entry"] == "creator":
            creator = GanttChartCreator(run.d, gif_config={
                "gif_path": os.path.join(td, "c.gif"), "fps": 10, "frames_dir": frames_dir,
                "remove_frames": False})
        for episode in range(2):
            if episode:
                run.d.reset(); run.r.reset()
            while not run.done():
                o, m = run.choose(rng, "random_ready")
                run.dispatch(o, m)
            r = run.r
            order = [o for o, _ in r.history]
            shown = []

            def plot(schedule, makespan=None, available_operations=None, current_time=None):
                k = len(shown) + 1
                ops_now = sorted((so.operation.operation_id, so.start_time, so.machine_id)
                                 for lst in schedule.schedule for so in lst)
                shown.append((ops_now, makespan))
                # the stamp also encodes the episode so that stale frames are recognisable
                return stamped_figure(k + 1024 * episode)

            if creator is not None:
                creator.partial_gantt_chart_plotter = plot
                creator.create_gif()
                path = os.path.join(td, "c.gif")
            else:
                path = os.path.join(td, f"f{episode}.gif")
                create_gantt_chart_gif(run.instance, path, plot_function=plot, fps=10,
                                       remove_frames=False, frames_dir=frames_dir,
                                       schedule_history=list(hist_obs.history))
            ctx.count("animation_runs")
            ctx.count("two_step_renderings")
            check_shown(ctx, r, order, shown, n, case["entry"] + f" episode {episode}")
            frames = imageio.mimread(path, memtest=False)
            codes = [decode(f) for f in frames]
            ctx.count("frames_decoded", len(frames))
            want = [k + 1024 * episode for k in range(1, n + 1)]
            if codes != want:
                ctx.violation("c20_stale_or_misordered_frames_in_second_rendering",
                              {"episode": episode, "entry": case["entry"], "got": codes[:8],
                               "want": want[:8], "n_frames": len(frames)})
                break
    finally:
        shutil.rmtree(td, ignore_errors=True)
    ctx.note_case(case, True, fingerprint=f"two:{n}:{case['entry']}:{case['seed']}")


def run_plotter_reuse(ctx, case):
    import matplotlib.pyplot as plt
    from job_shop_lib.visualization import get_partial_gantt_chart_plotter
    rng = random.Random(case["seed"])
    plotter = get_partial_gantt_chart_plotter()
    runs = []
    for _ in range(3):
        run = Run(case["instance"])
        for _ in range(rng.randint(1, run.r.num_ops)):
            o, m = run.choose(rng, "random_ready")
            run.dispatch(o, m)
        runs.append(run)
    runs.sort(key=lambda x: -x.r.makespan())      # the later charts have the smaller makespans
    for k, run in enumerate(runs):
        r = run.r
        fig = plotter(run.d.schedule, None, None, None)
        want = [(r.machine_of[o], r.start[o], r.end[o], r.op_job[o]) for o in r.start]
        try:
            check_chart(ctx, run.d.schedule, fig.axes[0], want, None, None,
                        f"chart {k + 1} drawn by one plotter object")
        finally:
            plt.close(fig)
    ctx.count("plotter_objects_reused")
    ctx.note_case(case, True, fingerprint="plotter-reuse:%s" % case["seed"])


def run_creator_chart(ctx, case):
    import copy
    import matplotlib.pyplot as plt
    from job_shop_lib.visualization import GanttChartCreator
    rng = random.Random(case["seed"])
    run = Run(case["instance"])
    r = run.r
    creator = GanttChartCreator(run.d)
    n = rng.randint(1, r.num_ops)
    fork_at = rng.randint(0, n - 1) if case["seed"] % 2 else None
    for k in range(n):
        if fork_at == k:
            dup = copy.deepcopy(run.d)
            run.d, run.instance = dup, dup.instance
            run.ops = [op for job in dup.instance.jobs for op in job]
            # (re-obtained for the copy: same observer look-up as for any dispatcher)
            creator = GanttChartCreator(dup)
            ctx.count("creators_built_for_a_deep_copy_of_the_dispatcher")
        o, m = run.choose(rng, "random_ready")
        run.dispatch(o, m)
    fig = creator.plot_gantt_chart()
    want = [(r.machine_of[o], r.start[o], r.end[o], r.op_job[o]) for o in r.start]
    try:
        check_chart(ctx, run.d.schedule, fig.axes[0], want, None, None,
                    "GanttChartCreator.plot_gantt_chart()" + (" on a deep copy" if fork_at is not None else ""))
    finally:
        plt.close(fig)
    ctx.count("charts_requested_through_a_creator")
    ctx.note_case(case, True, fingerprint="creator-chart:%s" % case["seed"])


def run_animation_solver(ctx, case):
    """create_gantt_chart_gif(instance, solver=...): the frames show ONE run of the solver, frame
    by frame (each frame adds one operation to the previous one), and the axis limit handed to
    every frame is that run's makespan."""
    import imageio
    from job_shop_lib.dispatching.rules import DispatchingRuleSolver
    from job_shop_lib.visualization import create_gantt_chart_gif
    rng = random.Random(case["seed"])
    n = case["length"]
    inst = long_instance(n, rng)
    instance = gen.build(inst)
    r0 = Run(inst).r
    shown = []

    def plot(schedule, makespan=None, available_operations=None, current_time=None):
        k = len(shown) + 1
        shown.append((sorted((so.operation.operation_id, so.start_time, so.machine_id)
                             for lst in schedule.schedule for so in lst), makespan))
        return stamped_figure(k)

    td = tempfile.mkdtemp(prefix="jsv-c20s-")
    try:
        path = os.path.join(td, "solver.gif")
        random.seed(case["seed"] % 1000)
        create_gantt_chart_gif(instance, path, solver=DispatchingRuleSolver(case["rule"], case["chooser"]),
                               plot_function=plot, fps=10)
        ctx.count("animation_runs"); ctx.count("solver_driven_animations")
        if len(shown) != n:
            ctx.violation("c20_plot_function_call_count", {"calls": len(shown), "history": n, "entry": "solver"})
            return
        for k in range(1, n + 1):
            ctx.count("plot_calls_checked")
            ops_now = shown[k - 1][0]
            prev = shown[k - 2][0] if k > 1 else []
            if len(ops_now) != k or any(x not in ops_now for x in prev):
                ctx.violation("c20_frame_k_does_not_show_first_k_operations",
                              {"k": k, "entry": "solver", "got": ops_now[:8], "previous_frame": prev[:8]})
                return
        final_mk = max(s + r0.op_dur[o] for o, s, _ in shown[-1][0])
        limits = {mk for _, mk in shown if mk is not None}
        if limits - {final_mk}:
            ctx.violation("c20_frame_axis_limit_not_final_makespan",
                          {"entry": "solver", "limits_passed": sorted(limits), "makespan_of_the_shown_run": final_mk})
        frames = imageio.mimread(path, memtest=False)
        check_frames(ctx, frames, n, "solver", "gif")
    finally:
        shutil.rmtree(td, ignore_errors=True)
    ctx.note_case(case, n >= 10, fingerprint=f"solver:{n}:{case['rule']}:{case['seed']}")


def run_animation_env_episodes(ctx, case):
    """An environment with render_mode='save_gif': every episode's rendering shows that episode."""
    import imageio
    from job_shop_lib.dispatching import DispatcherObserverConfig
    from job_shop_lib.graphs import build_agent_task_graph
    from job_shop_lib.reinforcement_learning import SingleJobShopGraphEnv
    rng = random.Random(case["seed"])
    n = case["length"]
    inst = long_instance(n, rng)
    instance = gen.build(inst)
    td = tempfile.mkdtemp(prefix="jsv-c20e-")
    try:
        gif_path = os.path.join(td, "env.gif")
        env = SingleJobShopGraphEnv(
            build_agent_task_graph(instance), [DispatcherObserverConfig("is_ready")],
            render_mode="save_gif", ready_operations_filter=None,
            render_config={"gif_config": {"gif_path": gif_path, "fps": 10}})
        for ep in range(3):
            env.reset()
            run = Run(inst, None, dispatcher=env.dispatcher, instance=instance)
            while not run.done():
                o, m = run.choose(rng, rng.choice(["random_ready", "round_robin", "one_job_first"]))
                env.step((run.r.op_job[o], m))
                run.r.apply(o, m)
            shown = []

            def plot(schedule, makespan=None, available_operations=None, current_time=None):
                k = len(shown) + 1
                shown.append((sorted((so.operation.operation_id, so.start_time, so.machine_id)
                                     for lst in schedule.schedule for so in lst), makespan))
                return stamped_figure(k)
            env.gantt_chart_creator.partial_gantt_chart_plotter = plot
            env.render()
            ctx.count("animation_runs"); ctx.count("env_episode_renderings")
            check_shown(ctx, run.r, [o for o, _ in run.r.history], shown, n, f"env episode {ep + 1}")
            frames = imageio.mimread(gif_path, memtest=False)
            check_frames(ctx, frames, n, f"env episode {ep + 1}", "gif")
    finally:
        shutil.rmtree(td, ignore_errors=True)
    ctx.note_case(case, True, fingerprint=f"env-episodes:{n}:{case['seed']}")


def run_case(ctx, case):
    {"chart": run_chart, "animation": run_animation, "animation_real": run_animation_real,
     "animation_two_step": run_two_step, "animation_solver": run_animation_solver,
     "animation_env_episodes": run_animation_env_episodes,
     "plotter_reuse": run_plotter_reuse, "creator_chart": run_creator_chart}[case["kind"]](ctx, case)
