"""C08 - pruning dominated operations never loses the optimum."""

from __future__ import annotations

from .. import gen

gen.WIDE_RATE = 0   # wide (~100 operation) instances: too costly here / not needed
from ..drive import Run
from ..ref import optimum

ID = "C08"
LEVEL = "exploration"
RULE = (
    "for each seeded instance with positive durations (flexible included, <= 8 "
    "operations quick / <= 11 thorough) the REAL dispatcher's tree under "
    "filter_dominated_operations is walked completely (every surviving operation, "
    "every eligible machine; memoised on the tracking state, the dispatcher is "
    "reset and re-driven to each state) and its best makespan is compared with (a) "
    "the independent exhaustive optimum of jsverif/ref.py and (b) on a subset the "
    "complete unfiltered tree of the real dispatcher. exhaustive per instance, not "
    "for the claim. distinct = distinct instances; non-trivial = the filter pruned "
    "at least one branch and two jobs compete for a machine"
)
ANCHORS = [
    "job_shop_lib.dispatching._ready_operation_filters:filter_dominated_operations",
    "job_shop_lib.dispatching._ready_operation_filters:_get_min_machine_end_times",
    "job_shop_lib.dispatching._dispatcher:Dispatcher.available_operations",
]
ASSUMPTIONS = [
    "optimum over all dispatch histories == optimum over semi-active schedules == true optimum "
    "(standard result); the reference search is independent of the library",
]
REQUIRED_COUNTERS = {"instances_fully_walked": 20, "branches_pruned": 50, "leaves_reached": 100}
WORKERS = {"quick": 1, "thorough": 14}


def gen_cases(ctx):
    rng = ctx.rng
    hi = 8 if ctx.tier == "quick" else 11
    for i in range(ctx.scale(1200, 60000)):
        cls = rng.choice(gen.POSITIVE_CLASSES + ["classic", "flexible", "fractional"])
        inst = gen.gen_instance(rng, cls, max_jobs=rng.choice([2, 3, 4]),
                                max_machines=rng.choice([2, 3, 4]),
                                max_ops=rng.randint(4, hi))
        c = {"kind": "walk", "instance": inst, "seed": rng.randrange(2**31),
             "unfiltered_twin": i % 5 == 0,
             # how the user obtained the filter: the function itself, the factory, a composite
             "form": ["function", "factory", "string", "enum"][i % 4]}
        if gen.is_flexible(inst) and i % 2:
            c["form"] = "string"  # composite from the public factory, alternative machines
        if i % 6 == 1 and gen.num_ops(inst) <= 7:
            # a search that branches by copying the dispatcher instead of reset + replay
            c["branch"] = "deepcopy"
        elif i % 6 == 2:
            # a search that orders the candidates of each node with a (tie-breaking) rule first
            c["heuristic_order"] = True
        elif i % 6 == 3:
            # the dispatcher was used for a warm start by a rule solver before the search
            c["warm_start"] = True
        elif i % 6 == 4:
            # a search that also proposes machines the operation cannot run on (the refusal is
            # caught and the search goes on with the same dispatcher)
            c["clumsy"] = True
        elif i % 6 == 5 and cls != "fractional":
            # a search that draws the first complete schedules it finds before reading them
            c["draw_leaves"] = True
        yield c
    # dense flexible instances (most operations have alternative machines): many histories reach
    # the same job progress with different clocks
    for i in range(ctx.scale(450, 24000)):
        J, P, M = rng.choice([(2, 3, 2), (2, 4, 2), (3, 2, 2), (2, 3, 3), (3, 2, 4), (3, 2, 4),
                               (3, 3, 3) if hi > 8 else (2, 4, 2), (3, 3, 5) if hi > 8 else (3, 2, 4)])
        inst = {"cls": "flexible",
                "durations": [[rng.randint(1, 6) for _ in range(P)] for _ in range(J)],
                "machines": [[sorted(rng.sample(range(M), rng.randint(1, M))) for _ in range(P)]
                             for _ in range(J)]}
        yield {"kind": "walk", "instance": inst, "seed": rng.randrange(2**31),
               "unfiltered_twin": False, "form": ["string", "string", "factory"][i % 3]}
    if ctx.tier == "thorough":
        for i in range(ctx.scale(0, 180)):
            inst = gen.gen_instance(rng, "classic", max_jobs=4, max_machines=3)
            if gen.num_ops(inst) <= 12:
                yield {"kind": "walk", "instance": inst, "seed": 0, "unfiltered_twin": False}


class TooBig(Exception):
    """logical node budget of one tree walk exceeded: the instance is left unjudged"""


def walk_by_copy(ctx, inst, filter_spec, stats):
    """Same tree, but each child state is reached on a copy.deepcopy of the parent's dispatcher
    (the parent is used again for the next sibling)."""
    import copy
    run = Run(inst, filter_spec)
    r = run.r
    memo = {}

    def rec(d):
        if r.complete():
            stats["leaves"] += 1
            real = d.schedule.makespan()
            if real != max(r.machine_end) or not d.schedule.is_complete():
                stats["leaf_mismatch"] = {"history": list(r.history), "real_makespan": real,
                                          "reference_makespan": max(r.machine_end)}
            return real
        key = r.copy_state()
        if key in memo:
            return memo[key]
        stats["nodes"] += 1
        if stats["nodes"] > 20000:
            raise TooBig()
        avail = [o.operation_id for o in d.available_operations()]
        ready = r.ready()
        if len(avail) < len(ready):
            stats["pruned"] += len(ready) - len(avail)
        if not avail or any(a not in ready for a in avail):
            ctx.violation("c08_filtered_tree_dead_end_or_foreign_operation",
                          {"available": avail, "ready": ready, "history": list(r.history),
                           "branching": "deepcopy"})
            memo[key] = float("inf")
            return memo[key]
        best = float("inf")
        for o in avail:
            for m in r.op_machines[o]:
                snap = r.clone()
                child = copy.deepcopy(d)
                j, p = r.op_job[o], r.job_next[r.op_job[o]]
                child.dispatch(child.instance.jobs[j][p], m)
                r.apply(o, m)
                best = min(best, rec(child))
                r.__dict__.update(snap.__dict__)
        memo[key] = best
        return best

    return rec(run.d)


def walk(ctx, inst, filter_spec, stats, heuristic_order=False, warm_start=False, clumsy=False,
         draw_leaves=False):
    run = Run(inst, filter_spec)
    n_machines = 1 + max(m for job in inst["machines"] for ms in job for m in ms)
    d, r = run.d, run.r
    rule = None
    if heuristic_order:
        from job_shop_lib.dispatching.rules import (score_based_rule_with_tie_breaker,
                                                    shortest_processing_time_score,
                                                    most_operations_remaining_score)
        rule = score_based_rule_with_tie_breaker([shortest_processing_time_score,
                                                  most_operations_remaining_score])
    if warm_start:
        from job_shop_lib.dispatching.rules import DispatchingRuleSolver
        DispatchingRuleSolver("most_work_remaining", "first",
                              ["dominated_operations", "non_immediate_operations"]).solve(run.instance, d)
    memo = {}
    path = []
    flaky_obs = None
    if clumsy:
        # ... and one of the search's own observers fails now and then; the error is caught and,
        # if the library withdrew the dispatch, the same request is made again
        from job_shop_lib.dispatching import DispatcherObserver

        class Unreliable(DispatcherObserver):
            _is_singleton = False
            armed = False

            def update(self, scheduled_operation):
                if self.armed:
                    self.armed = False
                    raise RuntimeError("user observer failed")

            def reset(self):
                pass
        flaky_obs = Unreliable(d)

    def replay():
        d.reset()
        for idx, (o, m) in enumerate(path):
            if flaky_obs is not None and idx == len(path) - 1 and (idx + m) % 2 == 0:
                flaky_obs.armed = True
                try:
                    d.dispatch(run.op(o), m)
                except RuntimeError:
                    stats["observer_failures"] = stats.get("observer_failures", 0) + 1
                    if not any(so.operation is run.op(o) for so in d.schedule.schedule[m]):
                        d.dispatch(run.op(o), m)
                finally:
                    flaky_obs.armed = False
            else:
                d.dispatch(run.op(o), m)

    def rec():
        if r.complete():
            stats["leaves"] += 1
            # the makespan of this history is read from the REAL dispatcher
            replay()
            if draw_leaves and stats["leaves"] <= 2:
                import matplotlib.pyplot as plt
                from job_shop_lib.visualization import plot_gantt_chart
                plot_gantt_chart(d.schedule)
                plt.close("all")
                stats["drawn"] = stats.get("drawn", 0) + 1
            real = d.schedule.makespan()
            if real != max(r.machine_end) or not d.schedule.is_complete():
                stats["leaf_mismatch"] = {"history": list(path), "real_makespan": real,
                                          "reference_makespan": max(r.machine_end)}
            return real
        key = r.copy_state()
        if key in memo:
            return memo[key]
        stats["nodes"] += 1
        if stats["nodes"] > 150000:
            raise TooBig()
        replay()
        late_obs = None
        if rule is not None:
            if not d.subscribers and len(path) >= 1:
                # ... and watches the earliest start times from here on (an observer attached to a
                # dispatcher that already holds the replayed prefix)
                from job_shop_lib.dispatching.feature_observers import EarliestStartTimeObserver
                late_obs = EarliestStartTimeObserver(d)
                stats["late_observers"] = stats.get("late_observers", 0) + 1
            rule(d)       # the search looks at the rule's favourite first
        if clumsy:
            for op in d.raw_ready_operations():
                wrong = [m for m in range(n_machines) if m not in op.machines]
                if wrong:
                    try:
                        d.dispatch(op, wrong[len(path) % len(wrong)])
                    except Exception:
                        stats["refused"] = stats.get("refused", 0) + 1
                    else:
                        stats["leaf_mismatch"] = {"history": list(path), "accepted_wrong_machine": True}
                    break
        avail = [o.operation_id for o in d.available_operations()]
        if late_obs is not None:
            d.unsubscribe(late_obs)
        ready = r.ready()
        if len(avail) < len(ready):
            stats["pruned"] += len(ready) - len(avail)
        if not avail or any(a not in ready for a in avail):
            ctx.violation("c08_filtered_tree_dead_end_or_foreign_operation",
                          {"available": avail, "ready": ready, "history": list(path)})
            memo[key] = float("inf")
            return memo[key]
        best = float("inf")
        for o in avail:
            for m in r.op_machines[o]:
                snap = r.clone()
                r.apply(o, m)
                path.append((o, m))
                best = min(best, rec())
                path.pop()
                r.__dict__.update(snap.__dict__)
        memo[key] = best
        return best

    return rec()


def run_case(ctx, case):
    inst = case["instance"]
    stats = {"leaves": 0, "nodes": 0, "pruned": 0}
    opt, nodes = optimum(inst)
    if opt is None:
        ctx.count("reference_search_gave_up")
        return
    try:
        spec = {"names": ["dominated_operations"], "form": case.get("form", "function")}
        if case.get("branch") == "deepcopy":
            best = walk_by_copy(ctx, inst, spec, stats)
            ctx.count("trees_walked_by_copying_the_dispatcher")
        else:
            best = walk(ctx, inst, spec, stats, heuristic_order=bool(case.get("heuristic_order")),
                        warm_start=bool(case.get("warm_start")), clumsy=bool(case.get("clumsy")),
                        draw_leaves=bool(case.get("draw_leaves")))
            ctx.count("refused_proposals_during_the_search", stats.get("refused", 0))
            ctx.count("observer_failures_during_the_search", stats.get("observer_failures", 0))
            ctx.count("observers_attached_to_a_replayed_prefix", stats.get("late_observers", 0))
            ctx.count("complete_schedules_drawn_before_being_read", stats.get("drawn", 0))
            if case.get("heuristic_order"):
                ctx.count("trees_walked_in_rule_order")
            if case.get("warm_start"):
                ctx.count("trees_walked_after_a_solver_warm_start")
        ctx.count("filter_obtained_as_" + spec["form"])
    except TooBig:
        ctx.count("instances_abandoned_node_budget")
        return
    ctx.count("instances_fully_walked")
    if "leaf_mismatch" in stats:
        ctx.violation("c08_history_makespan_differs_from_reference", stats["leaf_mismatch"])
    ctx.count("leaves_reached", stats["leaves"])
    ctx.count("tree_nodes_expanded", stats["nodes"])
    ctx.count("branches_pruned", stats["pruned"])
    ctx.count("reference_search_nodes", nodes)
    if best != opt:
        ctx.violation("c08_filtered_tree_misses_optimum",
                      {"filtered_best": best if best != float("inf") else "no complete history",
                       "optimum": opt, "filter_form": case.get("form", "function"),
                       "branching": case.get("branch", "reset+replay"),
                       "heuristic_order": bool(case.get("heuristic_order")),
                       "warm_start": bool(case.get("warm_start"))})
    if case.get("unfiltered_twin") and gen.num_ops(inst) <= 9:
        s2 = {"leaves": 0, "nodes": 0, "pruned": 0}
        try:
            full = walk(ctx, inst, None, s2)
        except TooBig:
            ctx.count("unfiltered_trees_abandoned_node_budget")
            full = opt
        ctx.count("unfiltered_real_trees")
        if full != opt:
            ctx.violation("c08_unfiltered_tree_differs_from_reference",
                          {"real_unfiltered_best": full, "reference_optimum": opt})
    ctx.note_case(case, stats["pruned"] > 0 and gen.competing(inst),
                  fingerprint=str(hash(gen.fingerprint(inst))))
    ctx.count("class_" + inst["cls"])
