"""C12 - reset makes everything indistinguishable from new."""

from __future__ import annotations

import random

from .. import gen

gen.WIDE_RATE = 0.004   # wide (~100 operation) instances: too costly here / not needed
from ..drive import Run, gen_history_case
from . import _snap

ID = "C12"
LEVEL = "exploration"
RULE = (
    "twin executions: trace(fresh objects; h2) vs trace(h1; reset; h2) where the "
    "trace is the full observable state (dispatcher vectors and query answers, "
    "every built-in observer's public state incl. the EST matrix and completion "
    "counters, rewards, history, unscheduled deques, graph removed-mask and edge "
    "set) after the reset and after every step; h1 partial / complete / containing "
    "rejected requests; observers created in random orders (unscheduled-ops before/"
    "after remaining-ops before/after is-completed, composite in between, graph "
    "updater first/last, lazily via create_or_get_observer). Single environment: "
    "3-4 consecutive episodes with identical action sequences (episode k vs episode "
    "1: observations, rewards, done, graph). Multi environment: episode 2 of one "
    "env vs episode 1 of a same-seed env advanced to the same instance. distinct = "
    "(instance, creation order, h1, h2); non-trivial = h1 non-empty and >= 3 "
    "observers"
)
ANCHORS = [
    "job_shop_lib.dispatching._dispatcher:Dispatcher.reset",
    "job_shop_lib.dispatching.feature_observers._feature_observer:FeatureObserver.reset",
    "job_shop_lib.dispatching.feature_observers._remaining_operations_observer:RemainingOperationsObserver.initialize_features",
    "job_shop_lib.dispatching.feature_observers._is_completed_observer:IsCompletedObserver.initialize_features",
    "job_shop_lib.dispatching.feature_observers._is_completed_observer:IsCompletedObserver.reset",
    "job_shop_lib.dispatching.feature_observers._earliest_start_time_observer:EarliestStartTimeObserver.update",
    "job_shop_lib.dispatching._unscheduled_operations_observer:UnscheduledOperationsObserver.reset",
    "job_shop_lib.graphs.graph_updaters._graph_updater:GraphUpdater.reset",
    "job_shop_lib.reinforcement_learning._reward_observers:RewardObserver.reset",
    "job_shop_lib.reinforcement_learning._single_job_shop_graph_env:SingleJobShopGraphEnv.reset",
    "job_shop_lib.reinforcement_learning._multi_job_shop_graph_env:MultiJobShopGraphEnv.reset",
]
ASSUMPTIONS = ["the snapshot covers the public state of the built-in observers (jsverif/props/_snap.py)"]
REQUIRED_COUNTERS = {"sparse_states_compared": 300, "observers_created_mid_history": 30, "twin_pairs": 150, "env_episode_comparisons": 60, "multi_env_comparisons": 5,
                     "trace_states_compared": 1000, "lazy_creations": 20}
WORKERS = {"quick": 1, "thorough": 14}
TOKENS = ["unsched", "remaining", "is_completed", "est", "duration", "is_ready", "is_scheduled",
          "position", "history", "mk_reward", "idle_reward", "graph", "composite"]


def gen_cases(ctx):
    rng = ctx.rng
    for i in range(ctx.scale(1000, 180000)):
        c = gen_history_case(rng, max_jobs=rng.choice([2, 3, 4]), max_machines=rng.choice([2, 3, 4]))
        k = rng.randint(2, len(TOKENS))
        order = rng.sample(TOKENS, k)
        if i % 4 == 0:
            order = rng.sample(TOKENS, len(TOKENS))
        if i % 5 == 2:
            order.insert(rng.randrange(len(order) + 1), "user_marks")
        if c.get("filter") and i % 3 == 1:
            c["flaky_filter"] = True
        c.update(kind="twin", order=order,
                 builder=rng.choice(["disjunctive", "agent_task", "with_jobs", "complete"]),
                 h1=rng.choice(["partial", "partial", "complete", "rejected", "one", "none", "solver"]),
                 updater_opts=rng.choice([{}, {}, {"remove_completed_machine_nodes": False},
                                          {"remove_completed_job_nodes": False}]),
                 late=rng.random() < 0.3,
                 prune=rng.choice([0, 0, 0, 1, 2, 5]))
        yield c
    for i in range(ctx.scale(600, 90000)):
        # bare dispatcher, queried only now and then: an answer given at step k of an earlier
        # episode must not come back at step k of a later one
        c = gen_history_case(rng, max_jobs=rng.choice([2, 3, 4]), max_machines=rng.choice([2, 3, 4]))
        c.update(kind="sparse", episodes=rng.choice([2, 2, 3]))
        yield c
    for i in range(ctx.scale(250, 48000)):
        c = gen_history_case(rng, max_jobs=rng.choice([2, 3, 4]), max_machines=rng.choice([2, 3]))
        c.update(kind="env", builder=rng.choice(["disjunctive", "agent_task", "with_jobs", "complete"]),
                 episodes=rng.choice([3, 4]),
                 features=rng.sample(["is_ready", "earliest_start_time", "duration", "is_scheduled",
                                      "position_in_job", "remaining_operations", "is_completed"],
                                     rng.randint(1, 7)),
                 reward=rng.choice(["makespan", "idle"]))
        yield c
    if ctx.shard in (0, 1):
        for feats in (["is_ready", "duration", "is_scheduled"], ["remaining_operations", "is_completed", "duration"]):
            yield {"kind": "fresh_across_processes", "seed": rng.randrange(10**6), "instance": {"cls": "generated"},
                   "features": feats, "hash_seeds": [0, 1, 2, 3, 5, 7]}
    for i in range(ctx.scale(30, 4800)):
        yield {"kind": "multi_env", "seed": rng.randrange(10**6), "instance": {"cls": "generated"},
               "features": rng.sample(["is_ready", "duration", "is_scheduled", "is_completed",
                                       "remaining_operations"], rng.randint(1, 4))}


def build_observers(ctx, d, case):
    from job_shop_lib.dispatching import HistoryObserver, UnscheduledOperationsObserver
    from job_shop_lib.dispatching.feature_observers import (
        CompositeFeatureObserver, DurationObserver, EarliestStartTimeObserver, FeatureObserver,
        IsCompletedObserver, IsReadyObserver, IsScheduledObserver, PositionInJobObserver,
        RemainingOperationsObserver)
    from job_shop_lib.graphs.graph_updaters import ResidualGraphUpdater
    from job_shop_lib.reinforcement_learning import IdleTimeReward, MakespanReward
    from .c16 import builders

    simple = {"remaining": RemainingOperationsObserver, "is_completed": IsCompletedObserver,
              "est": EarliestStartTimeObserver, "duration": DurationObserver,
              "is_ready": IsReadyObserver, "is_scheduled": IsScheduledObserver,
              "position": PositionInJobObserver, "mk_reward": MakespanReward,
              "idle_reward": IdleTimeReward}
    class ReadyMarks(FeatureObserver):
        """A user-written feature observer that overrides `initialize_features` only (the base class
        calls it at construction, after every dispatch and - after zeroing - at reset): it marks
        the operations that have been ready at some point of the episode."""
        def initialize_features(self):
            from job_shop_lib.dispatching.feature_observers import FeatureType
            col = self.features[FeatureType.OPERATIONS]
            for op in self.dispatcher.raw_ready_operations():
                col[op.operation_id, 0] = 1.0

    for tok in case["order"]:
        n0 = len(d.subscribers)
        if tok == "user_marks":
            from job_shop_lib.dispatching.feature_observers import FeatureType
            ReadyMarks(d, feature_types=[FeatureType.OPERATIONS])
        elif tok == "unsched":
            d.create_or_get_observer(UnscheduledOperationsObserver)
        elif tok == "history":
            d.create_or_get_observer(HistoryObserver)
        elif tok == "graph":
            g = builders()[case["builder"]](d.instance)
            if case.get("prune") and len(g.nodes) > d.instance.num_operations:
                # the user removed a non-operation node (source, a machine, ...) beforehand
                g.remove_node(d.instance.num_operations + case["prune"] % (len(g.nodes) - d.instance.num_operations))
            ResidualGraphUpdater(d, g, **case["updater_opts"])
        elif tok == "composite":
            if any(isinstance(s, FeatureObserver) for s in d.subscribers):
                CompositeFeatureObserver(d)
        else:
            simple[tok](d)
        if len(d.subscribers) > n0 + 1:
            ctx.count("lazy_creations")


def state_of(d):
    st = _snap.dispatcher_state(d)
    st.pop("subscribers"); st.pop("configured_filter", None)
    return st


def run_twin(ctx, case):
    rng = random.Random(case["seed"])
    inst = case["instance"]
    # h1; reset; h2 (A's filter may be wrapped by user code that fails once during h1)
    A = Run(inst, dict(case["filter"], flaky=True) if case.get("flaky_filter") else case.get("filter"))
    # fresh; h2 - on its own instance object, or on the very instance object A uses
    B = Run(inst, case.get("filter"), instance=A.instance if case["seed"] % 2 else None)
    if case["seed"] % 2:
        ctx.count("twins_sharing_the_instance_object")
    late = case.get("late", False)
    if not late:
        build_observers(ctx, A.d, case)
    build_observers(ctx, B.d, case)
    # ---- h1 on A
    n1 = {"partial": rng.randint(1, max(1, A.r.num_ops - 1)), "complete": A.r.num_ops,
          "rejected": rng.randint(1, A.r.num_ops), "one": 1, "none": 0, "solver": 0}[case["h1"]]
    if case["h1"] == "solver":
        # the first episode was produced by a rule solver that was handed this dispatcher
        from job_shop_lib.dispatching.rules import DispatchingRuleSolver
        if late and not A.d.subscribers:
            build_observers(ctx, A.d, case)
        DispatchingRuleSolver(rng.choice(["most_work_remaining", "shortest_processing_time"])).solve(
            A.instance, A.d)
        ctx.count("first_episodes_produced_by_a_rule_solver")
    late_at = rng.randint(1, max(1, min(n1, A.r.num_ops))) if late else None
    for k in range(min(n1, A.r.num_ops)):
        if late and k == late_at - 1 + 0 and not A.d.subscribers and k > 0:
            build_observers(ctx, A.d, case)   # observers attached to a non-empty dispatcher
            ctx.count("observers_created_mid_history")
        if case["h1"] == "rejected" and rng.random() < 0.4:
            try:
                A.d.dispatch(A.op(rng.choice(A.r.ready())), A.r.num_machines + 2)
            except Exception:
                pass
        o, m = A.choose(rng, rng.choice(["random_ready", "random_available"]))
        A.dispatch(o, m)
    if late and not A.d.subscribers:
        build_observers(ctx, A.d, case)       # at the latest right before the reset
        ctx.count("observers_created_mid_history")
    if [type(s).__name__ for s in A.d.subscribers] != [type(s).__name__ for s in B.d.subscribers]:
        raise RuntimeError("harness: twins have different observer sets")
    h1 = list(A.r.history)
    if case.get("flaky_filter") and gen.fail_once(A.d, rng.choice([A.d.available_operations, A.d.current_time])):
        ctx.count("resets_after_a_user_filter_failure")
    A.d.reset(); A.r.reset()
    if case["seed"] % 5 == 0:
        A.d.reset()      # resetting twice is resetting once
        ctx.count("double_resets")
    traceA, traceB = [state_of(A.d)], [state_of(B.d)]
    rng2 = random.Random(case["seed"] + 17)
    while not B.done():
        pol = case["policy"]
        o, m = B.choose(rng2, pol if pol != "mixed" else rng2.choice(gen.POLICIES))
        if case["seed"] % 6 in (1, 3) and A.d.available_operations() and B.d.available_operations():
            # the built-in observer-based rule (one shared rule object) is asked on the reset
            # dispatcher, that dispatcher moves on, then the fresh one - still in the state the
            # other one was in - is asked: same state, same answer
            from job_shop_lib.dispatching.rules import observer_based_most_work_remaining_rule as rule
            ca = rule(A.d).operation_id
            A.dispatch(o, m)
            cb = rule(B.d).operation_id
            B.dispatch(o, m)
            ctx.count("rule_answers_compared_reset_vs_fresh")
            if ca != cb:
                ctx.violation("c12_rule_answer_differs_between_reset_and_fresh_dispatcher",
                              {"reset": ca, "fresh": cb, "h1": h1, "h2": list(B.r.history)})
                break
        else:
            A.dispatch(o, m); B.dispatch(o, m)
        traceA.append(state_of(A.d)); traceB.append(state_of(B.d))
    ctx.count("twin_pairs")
    ctx.count("trace_states_compared", len(traceB))
    if traceA != traceB:
        k = next(i for i, (x, y) in enumerate(zip(traceA, traceB)) if x != y)
        changed = _snap.diff_keys(traceA[k], traceB[k])[:10]
        names = [s["type"] for s in traceB[k]["observers"]]
        ctx.violation("c12_reset_trace_differs_from_fresh",
                      {"first_divergent_state": k, "paths": changed, "observers": names,
                       "order": case["order"], "h1": h1, "h2": list(B.r.history)[:k]})
    ctx.note_case(case, bool(h1) and len(B.d.subscribers) >= 3, fingerprint=str(hash(
        (gen.fingerprint(inst), tuple(case["order"]), tuple(h1), tuple(B.r.history)))))
    ctx.count("class_" + inst["cls"])


def run_sparse(ctx, case):
    rng = random.Random(case["seed"])
    inst = case["instance"]
    A = Run(inst, case.get("filter"))
    diverged = False
    for ep in range(case["episodes"]):
        B = Run(inst, case.get("filter"))      # fresh twin for this episode
        if ep:
            A.d.reset(); A.r.reset()
        k = 0
        while not B.done():
            o, m = B.choose(rng, rng.choice(gen.POLICIES))
            A.dispatch(o, m); B.dispatch(o, m)
            k += 1
            if rng.random() < 0.4:
                ctx.count("sparse_states_compared")
                if ep:
                    ctx.count("trace_states_compared")
                sa, sb = state_of(A.d), state_of(B.d)
                if sa != sb:
                    ctx.violation("c12_reset_trace_differs_from_fresh",
                                  {"episode": ep + 1, "step": k, "paths": _snap.diff_keys(sa, sb)[:10],
                                   "observers": [], "history": list(B.r.history),
                                   "queried": "only at some steps"})
                    diverged = True
                    break
        if diverged:
            break
    ctx.count("sparse_twin_runs")
    ctx.note_case(case, True, fingerprint=str(hash(
        (gen.fingerprint(inst), "sparse", case["seed"]))))
    ctx.count("class_" + inst["cls"])


def make_env(instance, case, rng, shared=None, builder=None):
    """`shared`: configuration objects the user keeps and hands to every env they construct."""
    from job_shop_lib.dispatching import DispatcherObserverConfig
    from job_shop_lib.reinforcement_learning import (IdleTimeReward, MakespanReward,
                                                     SingleJobShopGraphEnv)
    from .c16 import builders
    rw = MakespanReward if case.get("reward", "makespan") == "makespan" else IdleTimeReward
    if shared is not None and not shared:
        from job_shop_lib.graphs.graph_updaters import ResidualGraphUpdater
        shared["features"] = [DispatcherObserverConfig(t) for t in case["features"]]
        shared["reward"] = DispatcherObserverConfig(rw)
        shared["updater"] = DispatcherObserverConfig(ResidualGraphUpdater)
    kw = {}
    if shared is not None:
        cfgs, rcfg = shared["features"], shared["reward"]
        kw["graph_updater_config"] = shared["updater"]
    else:
        cfgs, rcfg = [DispatcherObserverConfig(t) for t in case["features"]], DispatcherObserverConfig(rw)
    return SingleJobShopGraphEnv(
        builders()[builder or case["builder"]](instance), cfgs,
        reward_function_config=rcfg,
        ready_operations_filter=gen.make_filter(case.get("filter")), **kw)


def env_step_record(env, ret):
    obs, reward, done, trunc, info = ret
    return (_snap.obs_state(obs), reward, done, trunc,
            _snap.graph_state(env.job_shop_graph),
            [o.operation_id for o in info["available_operations"]])


def run_env(ctx, case):
    rng = random.Random(case["seed"])
    instance = gen.build(case["instance"])
    shared = {} if case["seed"] % 5 == 2 else None
    env = make_env(instance, case, rng, shared)
    render_dir = None
    if case["seed"] % 8 == 0 and instance.num_operations <= 14:
        # the environment also renders (GIF) at the end of every episode: each rendering shows
        # the episode that was just played
        import shutil
        import tempfile
        from job_shop_lib.reinforcement_learning import SingleJobShopGraphEnv
        from .c16 import builders
        from job_shop_lib.dispatching import DispatcherObserverConfig
        from job_shop_lib.reinforcement_learning import IdleTimeReward, MakespanReward
        render_dir = tempfile.mkdtemp(prefix="jsv-c12-")
        rw = MakespanReward if case.get("reward", "makespan") == "makespan" else IdleTimeReward
        env = SingleJobShopGraphEnv(
            builders()[case["builder"]](instance), [DispatcherObserverConfig(t) for t in case["features"]],
            reward_function_config=DispatcherObserverConfig(rw),
            ready_operations_filter=gen.make_filter(case.get("filter")),
            render_mode="save_gif",
            render_config={"gif_config": {"gif_path": render_dir + "/episode.gif", "fps": 10}})
        ctx.count("rendering_envs")
    try:
        first, actions = _run_env_episodes(ctx, case, rng, instance, env, render_dir)
        if case["seed"] % 5 == 4 and first is not None and not render_dir and case["builder"] == "agent_task":
            # the graph object the first env was built on is extended by its owner (a global node)
            # and handed to a second env: that env works on the graph it was given
            from job_shop_lib.graphs import (add_global_node, add_machine_global_edges,
                                             build_agent_task_graph)
            from job_shop_lib.reinforcement_learning import SingleJobShopGraphEnv
            from job_shop_lib.dispatching import DispatcherObserverConfig
            g_shared = build_agent_task_graph(instance)
            feats = [DispatcherObserverConfig(t) for t in case["features"]]
            e1 = SingleJobShopGraphEnv(g_shared, feats)
            e1.reset()
            n_before = len(g_shared.nodes)
            add_global_node(g_shared); add_machine_global_edges(g_shared)
            e2 = SingleJobShopGraphEnv(g_shared, feats)
            obs2, _ = e2.reset()
            import copy
            e3 = SingleJobShopGraphEnv(copy.deepcopy(g_shared), feats)
            obs3, _ = e3.reset()
            ctx.count("envs_built_on_a_graph_object_that_was_extended_after_an_earlier_env")
            if _snap.obs_state(obs2) != _snap.obs_state(obs3) or len(e2.job_shop_graph.nodes) != n_before + 1:
                ctx.violation("c12_env_reset_to_another_graph_than_it_was_given",
                              {"nodes_given": n_before + 1, "nodes_after_reset": len(e2.job_shop_graph.nodes),
                               "features": case["features"]})
        if shared is not None and first is not None and not render_dir:
            # the user's configuration objects served other environments meanwhile (another graph
            # encoding of the same instance); an env constructed from them now behaves like the
            # first one did
            other = make_env(instance, case, rng, shared,
                             builder="disjunctive" if case["builder"] != "disjunctive" else "agent_task")
            other.reset()
            op9 = other.dispatcher.available_operations()[0]
            other.step((op9.job_id, op9.machines[0]))
            fresh = make_env(instance, case, rng, shared)
            obs, info = fresh.reset()
            trace = [(_snap.obs_state(obs), _snap.graph_state(fresh.job_shop_graph), state_of(fresh.dispatcher))]
            for act in actions:
                ret = fresh.step(act)
                trace.append((env_step_record(fresh, ret), state_of(fresh.dispatcher)))
            ctx.count("fresh_envs_from_shared_configuration_objects_compared")
            if trace != first:
                k = next(i for i, (x, y) in enumerate(zip(trace, first)) if x != y)
                ctx.violation("c12_env_from_reused_configuration_differs_from_first",
                              {"first_divergent_step": k,
                               "paths": _snap.diff_keys(_to_dict(trace[k]), _to_dict(first[k]))[:10],
                               "builder": case["builder"], "features": case["features"], "actions": actions})
    finally:
        if render_dir:
            shutil.rmtree(render_dir, ignore_errors=True)


def _render_and_judge(ctx, env, episode_no):
    from matplotlib.figure import Figure
    shown = []

    def plot(schedule, makespan=None, available_operations=None, current_time=None):
        shown.append(sorted((so.operation.operation_id, so.start_time, so.machine_id)
                            for lst in schedule.schedule for so in lst))
        return Figure(figsize=(0.4, 0.3), dpi=20)
    env.gantt_chart_creator.partial_gantt_chart_plotter = plot
    env.render()
    want = sorted((so.operation.operation_id, so.start_time, so.machine_id)
                  for lst in env.dispatcher.schedule.schedule for so in lst)
    ctx.count("episode_renderings_judged")
    if len(shown) != len(want) or (shown and shown[-1] != want):
        ctx.violation("c12_env_rendering_shows_another_episode",
                      {"episode": episode_no, "frames": len(shown), "operations": len(want),
                       "last_frame": shown[-1][:6] if shown else None, "schedule": want[:6]})
        return False
    return True


def _run_env_episodes(ctx, case, rng, instance, env, render_dir):
    actions = None
    first = None
    for ep in range(case["episodes"]):
        obs, info = env.reset()
        trace = [(_snap.obs_state(obs), _snap.graph_state(env.job_shop_graph),
                  state_of(env.dispatcher))]
        if actions is None:
            actions = []
            done = False
            while not done:
                op = rng.choice(env.dispatcher.available_operations())
                act = (op.job_id, rng.choice(op.machines))
                actions.append(act)
                ret = env.step(act)
                done = ret[2]
                trace.append((env_step_record(env, ret), state_of(env.dispatcher)))
            first = trace
            if render_dir and not _render_and_judge(ctx, env, ep + 1):
                break
        else:
            if render_dir:
                # later episodes take another route, so that a stale rendering would show
                acts2 = []
                done2 = False
                while not done2:
                    op2 = rng.choice(env.dispatcher.available_operations())
                    a2 = (op2.job_id, rng.choice(op2.machines))
                    done2 = env.step(a2)[2]
                if not _render_and_judge(ctx, env, ep + 1):
                    break
                continue
            for act in actions:
                ret = env.step(act)
                trace.append((env_step_record(env, ret), state_of(env.dispatcher)))
            ctx.count("env_episode_comparisons")
            ctx.count("trace_states_compared", len(trace))
            if trace != first:
                k = next(i for i, (x, y) in enumerate(zip(trace, first)) if x != y)
                ctx.violation("c12_env_episode_differs_from_first",
                              {"episode": ep + 1, "first_divergent_step": k,
                               "paths": _snap.diff_keys(_to_dict(trace[k]), _to_dict(first[k]))[:10],
                               "builder": case["builder"], "features": case["features"],
                               "actions": actions})
                break
    ctx.note_case(case, True, fingerprint=str(hash(
        (gen.fingerprint(case["instance"]), case["builder"], tuple(case["features"]), tuple(actions)))))
    return first, actions


def _to_dict(t):
    if isinstance(t, tuple):
        return {str(i): _to_dict(x) for i, x in enumerate(t)}
    if isinstance(t, list):
        return [_to_dict(x) for x in t]
    if isinstance(t, dict):
        return {k: _to_dict(v) for k, v in t.items()}
    return t


_FRESH_ENV_SCRIPT = """
import json, sys, hashlib
import numpy as np
from job_shop_lib.dispatching import DispatcherObserverConfig
from job_shop_lib.generation import GeneralInstanceGenerator
from job_shop_lib.reinforcement_learning import MultiJobShopGraphEnv
feats, seed = json.loads(sys.argv[1]), int(sys.argv[2])
g = GeneralInstanceGenerator(num_jobs=(2, 4), num_machines=(2, 3), duration_range=(1, 9), seed=seed)
env = MultiJobShopGraphEnv(g, [DispatcherObserverConfig(t) for t in feats])
obs, info = env.reset()
out = {k: [list(np.asarray(v).shape), hashlib.sha1(np.ascontiguousarray(v).tobytes()).hexdigest()]
       for k, v in sorted(obs.items())}
out["feature_names"] = {str(k): list(v) for k, v in sorted(info.get("feature_names", {}).items(), key=str)}
print(json.dumps(out, sort_keys=True))
"""


def run_fresh_across_processes(ctx, case):
    """Freshly constructed environments are identical - also when they are constructed in another
    process (under another hash seed): same generator seed, same configurations, same first
    observation and feature columns."""
    import json
    import os
    import subprocess
    import sys
    outs = {}
    for hs in case["hash_seeds"]:
        pr = subprocess.run([sys.executable, "-c", _FRESH_ENV_SCRIPT, json.dumps(case["features"]),
                             str(case["seed"] % 100000)], capture_output=True, text=True,
                            env=dict(os.environ, PYTHONHASHSEED=str(hs)), timeout=600)
        if pr.returncode != 0:
            ctx.violation("c12_fresh_env_failed_in_another_process", {"PYTHONHASHSEED": hs, "error": pr.stderr[-300:]})
            return
        outs[hs] = pr.stdout.strip()
    ctx.count("fresh_envs_compared_across_processes", len(outs))
    first = case["hash_seeds"][0]
    other = [hs for hs in outs if outs[hs] != outs[first]]
    if other:
        ctx.violation("c12_fresh_envs_differ_between_processes",
                      {"features": case["features"], "PYTHONHASHSEED": [first, other[0]],
                       "first": outs[first][:400], "other": outs[other[0]][:400]})
    ctx.note_case(case, True, fingerprint="fresh-across:%s" % case["seed"])


def run_multi_env(ctx, case):
    from job_shop_lib.dispatching import DispatcherObserverConfig
    from job_shop_lib.generation import GeneralInstanceGenerator
    from job_shop_lib.reinforcement_learning import MultiJobShopGraphEnv

    def play(env, prng):
        trace = []
        done = False
        while not done:
            op = prng.choice(env.dispatcher.available_operations())
            ret = env.step((op.job_id, prng.choice(op.machines)))
            done = ret[2]
            trace.append((_snap.obs_state(ret[0]), ret[1], ret[2], ret[3],
                          _snap.graph_state(env.job_shop_graph)))
        return trace

    def build(**kw):
        # (an iteration limit bounds `for instance in generator` loops; the env asks for instances
        # one at a time and may be reset any number of times)
        g = GeneralInstanceGenerator(num_jobs=(2, 4), num_machines=(2, 3), duration_range=(1, 9),
                                     seed=case["seed"],
                                     **({"iteration_limit": 1} if case["seed"] % 4 == 1 else {}))
        return MultiJobShopGraphEnv(g, [DispatcherObserverConfig(t) for t in case["features"]], **kw)

    new_filter = None
    if case["seed"] % 3 == 0:
        # the env is reconfigured through its filter setter after the first episode: the next
        # episode is that of an env constructed with this filter
        from job_shop_lib.dispatching import ready_operations_filter_factory
        new_filter = ready_operations_filter_factory(
            random.Random(case["seed"]).choice(["non_idle_machines", "non_immediate_machines",
                                                "non_immediate_operations"]))
        ctx.count("multi_env_reconfigured_through_the_filter_setter")
    X = build()
    X.reset()
    play(X, random.Random(1))
    if new_filter is not None:
        X.ready_operations_filter = new_filter
    obs2, _ = X.reset()
    tX = [_snap.obs_state(obs2)] + play(X, random.Random(2))
    instX = [[(tuple(o.machines), o.duration) for o in j] for j in X.instance.jobs]
    Y = build(**({} if new_filter is None else {"ready_operations_filter": new_filter}))
    Y.instance_generator.generate()      # consume the draw of X's first episode
    obs1, _ = Y.reset()
    instY = [[(tuple(o.machines), o.duration) for o in j] for j in Y.instance.jobs]
    if instX != instY:
        ctx.count("multi_env_instances_not_aligned")
        return
    tY = [_snap.obs_state(obs1)] + play(Y, random.Random(2))
    ctx.count("multi_env_comparisons")
    ctx.count("trace_states_compared", len(tY))
    if tX != tY:
        k = next(i for i, (x, y) in enumerate(zip(tX, tY)) if x != y)
        ctx.violation("c12_multi_env_second_episode_differs_from_fresh",
                      {"first_divergent_step": k, "features": case["features"], "instance": instX})
    ctx.note_case(case, True, fingerprint=str(hash((case["seed"], str(instX)))))


def run_case(ctx, case):
    {"twin": run_twin, "env": run_env, "multi_env": run_multi_env,
     "sparse": run_sparse, "fresh_across_processes": run_fresh_across_processes}[case["kind"]](ctx, case)
