"""C18 - the environments honour the Gymnasium contract."""

from __future__ import annotations

import random

import numpy as np

from .. import gen

gen.WIDE_RATE = 0.01   # wide (~100 operation) instances: too costly here / not needed
from ..ref import Ref

ID = "C18"
LEVEL = "exploration"
RULE = (
    "both environments x four graph builders x random subsets of the seven feature "
    "observers x both reward classes x updater options x filters x generators "
    "(classic, recirculation, flexible), 3 episodes each: every observation from "
    "reset/step must be in observation_space (padding on), have the declared shapes "
    "and dtypes, padding only at the end with the declared fill (-1; True for "
    "removed_nodes), removed_nodes / un-padded edge_index / feature matrices equal "
    "to the current graph and composite observer, done <=> complete, truncated "
    "False; at every state every legal (job, eligible machine) and (job, -1) for "
    "single-machine operations must be in action_space; after each multi-env reset "
    "the inner environment's updater class+kwargs, reward class, filter, observer "
    "configs, padding and render mode must equal the constructor's and the instance "
    "must lie in the generator's ranges. distinct = distinct configurations; "
    "non-trivial = >= 2 feature observers or non-default updater/reward/filter"
)
ANCHORS = [
    "job_shop_lib.reinforcement_learning._single_job_shop_graph_env:SingleJobShopGraphEnv.__init__",
    "job_shop_lib.reinforcement_learning._single_job_shop_graph_env:SingleJobShopGraphEnv._get_observation_space",
    "job_shop_lib.reinforcement_learning._single_job_shop_graph_env:SingleJobShopGraphEnv.get_observation",
    "job_shop_lib.reinforcement_learning._single_job_shop_graph_env:SingleJobShopGraphEnv._get_edge_index",
    "job_shop_lib.reinforcement_learning._single_job_shop_graph_env:SingleJobShopGraphEnv.step",
    "job_shop_lib.reinforcement_learning._multi_job_shop_graph_env:MultiJobShopGraphEnv.reset",
    "job_shop_lib.reinforcement_learning._multi_job_shop_graph_env:MultiJobShopGraphEnv._add_padding_to_observation",
    "job_shop_lib.reinforcement_learning._utils:add_padding",
]
ASSUMPTIONS = [
    "observation-space membership is judged with padding on (without padding shapes vary by design)",
    "gymnasium's Space.contains is the membership oracle",
]
REQUIRED_COUNTERS = {"observations_checked": 1500, "legal_actions_checked": 1500,
                     "multi_env_resets_checked": 60, "single_env_configs": 30,
                     "multi_env_configs": 20, "highest_machine_actions": 100}
WORKERS = {"quick": 1, "thorough": 14}
FEATURES = ["is_ready", "earliest_start_time", "duration", "is_scheduled", "position_in_job",
            "remaining_operations", "is_completed"]
BUILDERS = ["disjunctive", "agent_task", "with_jobs", "complete"]


def gen_cases(ctx):
    rng = ctx.rng
    for i in range(ctx.scale(300, 36000)):
        inst = gen.gen_instance(rng, None, max_jobs=rng.choice([2, 3, 4]), max_machines=rng.choice([2, 3, 4]))
        yield {"kind": "single", "instance": inst, "builder": BUILDERS[i % 4],
               "features": rng.sample(FEATURES, rng.randint(1, 7)),
               "reward": rng.choice(["makespan", "idle"]),
               "updater_opts": rng.choice([{}, {}, {"remove_completed_machine_nodes": False},
                                           {"remove_completed_job_nodes": False}]),
               "filter": rng.choice([None, "default", {"names": ["dominated_operations"], "form": "function"},
                                     {"names": ["non_idle_machines"], "form": "function"}]),
               "padding": rng.random() < 0.85, "seed": rng.randrange(2**31),
               # some feature observers are asked for a subset of their feature types only
               "restrict_feature_types": rng.choice([None, None, {"is_completed": ["jobs"]},
                                                     {"is_completed": ["machines"]},
                                                     {"remaining_operations": ["jobs"]},
                                                     {"is_scheduled": ["operations"], "duration": ["jobs", "machines"]}]),
               # the user may have removed a non-operation node (source, a machine node, ...)
               # from the graph before handing it to the environment
               "prune": rng.choice([0, 0, 0, 1, 2, 5])}
    for i in range(ctx.scale(200, 24000)):
        style = ["classic", "classic", "recirc", "flexible"][i % 4]
        lo_j = rng.randint(2, 3); lo_m = rng.randint(2, 3)
        gp = {"num_jobs": [lo_j, lo_j + rng.randint(0, 2)], "num_machines": [lo_m, lo_m + rng.randint(0, 2)],
              # (dummy operations of duration 0 are valid; small ranges make them frequent)
              "duration_range": [0, rng.choice([2, 3])] if style == "classic" and i % 8 == 1
              else [1, rng.choice([5, 20])], "allow_recirculation": style == "recirc",
              # (the upper bound of machines per operation may exceed the smallest machine count)
              "machines_per_operation": ([1, 2] if i % 8 != 3 else [1, lo_m + 1]) if style == "flexible" else 1,
              "seed": rng.randrange(10**6)}
        yield {"kind": "multi", "instance": {"cls": "generated-" + style}, "generator": gp,
               "style": style, "builder": BUILDERS[(i // 4) % 4],
               "features": rng.sample(FEATURES, rng.randint(1, 5)),
               "reward": rng.choice(["makespan", "idle"]),
               "updater_opts": rng.choice([{}, {"remove_completed_machine_nodes": False},
                                           {"remove_completed_job_nodes": False},
                                           {"remove_completed_machine_nodes": False,
                                            "remove_completed_job_nodes": False}]),
               "filter": rng.choice(["default", "default", {"names": ["non_idle_machines"], "form": "function"},
                                     {"names": ["non_immediate_machines"], "form": "function"}, None]),
               "padding": rng.random() < 0.8, "seed": rng.randrange(2**31)}
    yield from _recirc_action_cases(ctx)


def _recirc_action_cases(ctx):
    """Small recirculation generators without padding, several episodes: the template instance the
    env samples at construction may not use the highest machine id that later episodes use."""
    rng = ctx.rng
    for i in range(ctx.scale(120, 12000)):
        yield {"kind": "multi", "instance": {"cls": "generated-recirc"},
               "generator": {"num_jobs": [1, 2], "num_machines": [2, 3], "duration_range": [1, 9],
                             "allow_recirculation": True, "machines_per_operation": 1,
                             "seed": rng.randrange(10**6)},
               "style": "recirc", "builder": "agent_task", "features": ["is_ready"], "reward": "makespan",
               "updater_opts": {}, "filter": "default", "padding": False, "episodes": 6,
               "seed": rng.randrange(2**31)}


def witnesses(ctx):
    """Known-finding witness (padding overflow with a flexible generator)."""
    yield {"kind": "multi", "instance": {"cls": "generated-flexible"},
           "generator": {"num_jobs": [3, 4], "num_machines": [3, 5], "duration_range": [1, 20],
                         "allow_recirculation": False, "machines_per_operation": [1, 2],
                         "seed": 658999},
           "style": "flexible", "builder": "complete", "features": ["earliest_start_time"],
           "reward": "makespan", "updater_opts": {"remove_completed_job_nodes": False},
           "filter": "default", "padding": True, "seed": 2009467861}


def configs(case):
    from job_shop_lib.dispatching import DispatcherObserverConfig
    from job_shop_lib.dispatching.feature_observers import FeatureObserverType
    from job_shop_lib.graphs.graph_updaters import ResidualGraphUpdater
    from job_shop_lib.reinforcement_learning import IdleTimeReward, MakespanReward
    from job_shop_lib.dispatching.feature_observers import FeatureType
    restrict = case.get("restrict_feature_types") or {}
    feats = [DispatcherObserverConfig(FeatureObserverType(t) if k % 2 else t,
                                      kwargs=({"feature_types": [FeatureType(x) for x in restrict[t]]}
                                              if t in restrict else {}))
             for k, t in enumerate(case["features"])]
    rw = DispatcherObserverConfig(MakespanReward if case["reward"] == "makespan" else IdleTimeReward)
    up = DispatcherObserverConfig(ResidualGraphUpdater, kwargs=dict(case["updater_opts"]))
    return feats, rw, up


def check_obs(ctx, env, inner, obs, space, where, padded_multi=False, check_membership=True):
    """obs vs declared space and vs the live graph / composite observer."""
    from job_shop_lib.reinforcement_learning import ObservationSpaceKey
    ctx.count("observations_checked")
    w = {"where": where}
    g = inner.job_shop_graph
    try:
        member = space.contains(obs)
    except Exception as e:
        member = False
        w["contains_error"] = repr(e)[:200]
    if not member and not check_membership:
        ctx.count("observations_without_padding_mirror_only")
    elif not member:
        detail = {}
        for k, sub in space.spaces.items():
            if k not in obs:
                detail[k] = "missing"
            elif not sub.contains(obs[k]):
                detail[k] = {"shape": list(np.shape(obs[k])), "dtype": str(np.asarray(obs[k]).dtype),
                             "space": str(sub)[:120]}
        extra = [k for k in obs if k not in space.spaces]
        ctx.violation("c18_observation_not_in_observation_space", dict(w, detail=detail, extra_keys=extra))
        return
    if not check_membership:
        pass
    rem = np.asarray(obs["removed_nodes"])
    n = len(g.removed_nodes)
    if [bool(x) for x in rem[:n]] != [bool(x) for x in g.removed_nodes] or not np.all(rem[n:] == 1):
        ctx.violation("c18_removed_nodes_mask_differs_from_graph",
                      dict(w, got=rem.astype(int).tolist(), want=[int(x) for x in g.removed_nodes]))
    edges = list(g.graph.edges())
    ei = np.asarray(obs["edge_index"])
    E = len(edges)
    if E == 0 and ei.size == 0 and not check_membership:
        pass  # without padding nothing is declared about the shape of an empty edge list
    elif ei.ndim != 2 or ei.shape[0] != 2 or ei.shape[1] < E:
        ctx.violation("c18_edge_index_shape", dict(w, shape=list(ei.shape), edges=E))
    else:
        got = list(zip(ei[0, :E].tolist(), ei[1, :E].tolist()))
        if sorted(got) != sorted(edges) or not np.all(ei[:, E:] == -1) or ei.dtype != np.int32:
            ctx.violation("c18_edge_index_differs_from_graph_or_bad_padding",
                          dict(w, n_edges=E, tail=ei[:, E:E + 4].tolist(), dtype=str(ei.dtype)))
    for ft, mat in inner.composite_observer.features.items():
        o = np.asarray(obs[ft.value])
        r0 = mat.shape[0]
        if o.shape[1:] != mat.shape[1:] or not np.array_equal(o[:r0], mat) or not np.all(o[r0:] == -1):
            ctx.violation("c18_feature_matrix_differs_or_bad_padding",
                          dict(w, feature=ft.value, obs_shape=list(o.shape), live_shape=list(mat.shape)))
    if set(obs) != {"removed_nodes", "edge_index"} | {ft.value for ft in inner.composite_observer.features}:
        ctx.violation("c18_observation_keys", dict(w, keys=sorted(obs)))


def check_actions(ctx, env, inner, where):
    d = inner.dispatcher
    M = inner.instance.num_machines
    for j, n in enumerate(d.job_next_operation_index):
        job = inner.instance.jobs[j]
        if n >= len(job):
            continue
        op = job[n]
        acts = [(j, m) for m in op.machines]
        if len(op.machines) == 1:
            acts.append((j, -1))
        for a in acts:
            ctx.count("legal_actions_checked")
            if a[1] == M - 1:
                ctx.count("highest_machine_actions")
            ok = env.action_space.contains(np.array(a, dtype=env.action_space.dtype))
            if not ok:
                ctx.violation("c18_legal_action_not_in_action_space",
                              {"where": where, "action": list(a), "action_space": str(env.action_space),
                               "num_machines": M})
                return False
    return True


def episode(ctx, env, inner_of, rng, where, padding, first_obs):
    inner = inner_of()
    space = env.observation_space
    check_obs(ctx, env, inner, first_obs, space, where + " reset", check_membership=padding)
    done = False
    steps = 0
    N = inner.instance.num_operations
    while not done:
        if not check_actions(ctx, env, inner, where):
            return False
        between = getattr(env, "_jsv_between_steps", None)
        if between is not None:
            between()
        if getattr(env, "_jsv_direct_dispatch", False) and rng.random() < 0.25 and N - steps >= 2:
            # an operation dispatched directly on the environment's dispatcher (warm start by a rule
            # solver, look-ahead ...): the observation asked for afterwards shows the current graph
            op0 = rng.choice(inner.dispatcher.available_operations())
            inner.dispatcher.dispatch(op0, rng.choice(op0.machines))
            steps += 1
            ctx.count("direct_dispatches_then_get_observation")
            check_obs(ctx, env, inner, inner.get_observation() if env is inner else env.single_job_shop_graph_env.get_observation(),
                      inner.observation_space, f"{where} after a direct dispatch", check_membership=padding)
        op = rng.choice(inner.dispatcher.available_operations())
        m = rng.choice(op.machines)
        if rng.random() < 0.12:
            # an action that is in the space but not legal now (a machine the job's next operation
            # cannot run on): the environment refuses it, the agent's loop catches the error and
            # goes on - the following observations are as declared
            wrong = [mm for mm in range(inner.instance.num_machines) if mm not in op.machines]
            if wrong:
                try:
                    env.step((op.job_id, rng.choice(wrong)))
                except Exception:
                    ctx.count("illegal_actions_refused_then_episode_continued")
                else:
                    # (whether illegal requests are refused is C09's business; this episode is not
                    # judged any further)
                    ctx.count("illegal_action_accepted_episode_left_unjudged")
                    return True
        act = (op.job_id, m if len(op.machines) > 1 or rng.random() < 0.6 else -1)
        obs, reward, done, trunc, info = env.step(act)
        steps += 1
        check_obs(ctx, env, inner, obs, space, f"{where} step {steps}", check_membership=padding)
        complete = inner.dispatcher.schedule.is_complete()
        if done != complete or done != (steps == N) or trunc is not False:
            ctx.violation("c18_done_or_truncated", {"where": where, "done": done, "complete": complete,
                                                    "truncated": trunc, "steps": steps, "N": N})
            return False
        if steps > N + 1:
            break
    return True


def run_single(ctx, case):
    from job_shop_lib.dispatching import filter_dominated_operations
    from job_shop_lib.reinforcement_learning import SingleJobShopGraphEnv
    from .c16 import builders
    rng = random.Random(case["seed"])
    instance = gen.build(case["instance"])
    feats, rw, up = configs(case)
    kw = {}
    if case["filter"] != "default":
        kw["ready_operations_filter"] = gen.make_filter(case["filter"])
    graph = builders()[case["builder"]](instance)
    if case.get("prune") and len(graph.nodes) > instance.num_operations:
        graph.remove_node(instance.num_operations
                          + case["prune"] % (len(graph.nodes) - instance.num_operations))
        ctx.count("single_env_built_from_a_pruned_graph")
    env = SingleJobShopGraphEnv(graph, feats,
                                reward_function_config=rw, graph_updater_config=up,
                                use_padding=case["padding"], **kw)
    ctx.count("single_env_configs")
    shapes0 = None
    sib = None
    if case["seed"] % 5 == 1:
        # a second environment for the same instance object (own graph), stepped in between
        feats2, rw2, up2 = configs(case)
        sib = SingleJobShopGraphEnv(builders()[case["builder"]](instance), feats2,
                                    reward_function_config=rw2, graph_updater_config=up2,
                                    use_padding=case["padding"], **kw)
        sib.reset()
        ctx.count("single_envs_with_a_sibling_env")

        def sibling_steps():
            for _ in range(rng.randint(1, 2)):
                if sib.dispatcher.schedule.is_complete():
                    sib.reset()
                op9 = rng.choice(sib.dispatcher.available_operations())
                sib.step((op9.job_id, rng.choice(op9.machines)))
        env._jsv_between_steps = sibling_steps
    env._jsv_direct_dispatch = case["seed"] % 4 == 2
    for ep in range(3):
        obs, info = env.reset()
        if info != {}:
            ctx.count("reset_info_nonempty")
        if case["padding"]:
            shapes = {k: np.asarray(v).shape for k, v in obs.items()}
            if shapes0 is None:
                shapes0 = shapes
            elif shapes != shapes0:
                ctx.violation("c18_observation_shapes_not_fixed", {"episode": ep})
        if not episode(ctx, env, lambda: env, rng, f"single ep{ep}", case["padding"], obs):
            break
    nt = len(case["features"]) >= 2 or case["updater_opts"] or case["reward"] != "makespan" \
        or case["filter"] != "default"
    ctx.note_case(case, bool(nt), fingerprint=str(hash(str(
        (gen.fingerprint(case["instance"]), case["builder"], case["features"], case["reward"],
         case["updater_opts"], str(case["filter"]), case["padding"])))))


def run_multi(ctx, case):
    from job_shop_lib.dispatching import filter_dominated_operations
    from job_shop_lib.exceptions import ValidationError
    from job_shop_lib.generation import GeneralInstanceGenerator
    from job_shop_lib.graphs.graph_updaters import ResidualGraphUpdater
    from job_shop_lib.reinforcement_learning import (IdleTimeReward, MakespanReward,
                                                     MultiJobShopGraphEnv)
    from .c16 import builders
    import traceback
    rng = random.Random(case["seed"])
    gp = dict(case["generator"])
    for k in ("num_jobs", "num_machines", "duration_range", "machines_per_operation"):
        if isinstance(gp[k], list):
            gp[k] = tuple(gp[k])
    g = GeneralInstanceGenerator(**gp)
    feats, rw, up = configs(case)
    kw = {}
    filt = filter_dominated_operations
    if case["filter"] != "default":
        filt = gen.make_filter(case["filter"])
        kw["ready_operations_filter"] = filt
    env = MultiJobShopGraphEnv(g, feats, graph_initializer=builders()[case["builder"]],
                               graph_updater_config=up, reward_function_config=rw,
                               use_padding=case.get("padding", True), **kw)
    ctx.count("multi_env_configs")
    if case["seed"] % 9 == 2 and case["style"] == "classic":
        # the owner of the generator widens its ranges and builds a second environment from it: the
        # declared spaces of that environment are those of the generator as it is now
        g.num_jobs_range = (g.num_jobs_range[0], g.num_jobs_range[1] + 2)
        gp["num_jobs"] = g.num_jobs_range
        case = dict(case, generator=dict(case["generator"], num_jobs=list(g.num_jobs_range)))
        env = MultiJobShopGraphEnv(g, feats, graph_initializer=builders()[case["builder"]],
                                   graph_updater_config=up, reward_function_config=rw,
                                   use_padding=case.get("padding", True), **kw)
        ctx.count("second_multi_env_from_a_generator_whose_ranges_were_widened")

    def matrices(instance):
        return {"durations": [[op.duration for op in job] for job in instance.jobs],
                "machines": [[list(op.machines) for op in job] for job in instance.jobs]}
    template = matrices(env.instance)     # the sample the declared shapes were derived from
    pad = case.get("padding", True)
    if not pad:
        ctx.count("multi_env_configs_without_padding")
    ctx.count("multi_style_" + case["style"])
    space0 = str(env.observation_space)
    for ep in range(case.get("episodes", 3)):
        try:
            obs, info = env.reset()
        except ValidationError as e:
            tb = traceback.format_exc()
            ctx.violation("c18_multi_env_reset_raised",
                          {"error": str(e)[:200], "from_add_padding": "add_padding" in tb,
                           "generator": case["generator"], "style": case["style"],
                           "builder": case["builder"], "episode": ep,
                           "template_instance": template, "episode_instance": matrices(env.instance)})
            break
        inner = env.single_job_shop_graph_env
        ctx.count("multi_env_resets_checked")
        # ---- configuration of the rebuilt inner environment
        bad = {}
        u = inner.graph_updater
        if type(u) is not ResidualGraphUpdater:
            bad["updater_class"] = type(u).__name__
        want_m = case["updater_opts"].get("remove_completed_machine_nodes", True)
        want_j = case["updater_opts"].get("remove_completed_job_nodes", True)
        if (u.remove_completed_machine_nodes, u.remove_completed_job_nodes) != (want_m, want_j):
            bad["updater_kwargs"] = {"got": [u.remove_completed_machine_nodes, u.remove_completed_job_nodes],
                                     "want": [want_m, want_j]}
        if type(inner.reward_function) is not (MakespanReward if case["reward"] == "makespan" else IdleTimeReward):
            bad["reward_class"] = type(inner.reward_function).__name__
        if inner.dispatcher.ready_operations_filter is not filt:
            bad["filter"] = repr(inner.dispatcher.ready_operations_filter)
        got_feats = [type(o).__name__ for o in inner.composite_observer.feature_observers]
        want_feats = ["".join(p.capitalize() for p in t.split("_")) + "Observer" for t in case["features"]]
        if got_feats != want_feats:
            bad["feature_observers"] = {"got": got_feats, "want": want_feats}
        if inner.use_padding is not pad or inner.render_mode is not None:
            bad["padding_or_render_mode"] = [inner.use_padding, inner.render_mode]
        if bad:
            ctx.violation("c18_multi_env_episode_config_differs_from_constructor",
                          {"diff": bad, "episode": ep, "updater_opts": case["updater_opts"]})
            break
        # ---- instance inside the generator's ranges
        I = inner.instance
        jr, mr, dr = gp["num_jobs"], gp["num_machines"], gp["duration_range"]
        ok = jr[0] <= I.num_jobs <= jr[1] and all(mr[0] <= len(j) <= mr[1] for j in I.jobs) and all(
            dr[0] <= op.duration <= dr[1] for j in I.jobs for op in j)
        if not ok:
            ctx.violation("c18_multi_env_instance_outside_generator_ranges",
                          {"jobs": I.num_jobs, "ops": [len(j) for j in I.jobs], "generator": case["generator"]})
        if str(env.observation_space) != space0:
            ctx.violation("c18_multi_env_space_changed", {})
        try:
            if case["seed"] % 5 == 3 and ep == 0:
                # this episode is played by a rule solver that is handed the env's dispatcher; the
                # following episodes are still built with the constructor's configuration
                from job_shop_lib.dispatching.rules import DispatchingRuleSolver
                DispatchingRuleSolver("most_work_remaining").solve(inner.dispatcher.instance, inner.dispatcher)
                ctx.count("multi_env_episodes_played_by_a_rule_solver")
                continue
            if not episode(ctx, env, lambda: env.single_job_shop_graph_env, rng, f"multi ep{ep}", pad, obs):
                break
        except ValidationError as e:
            tb = traceback.format_exc()
            ctx.violation("c18_multi_env_step_raised",
                          {"error": str(e)[:200], "from_add_padding": "add_padding" in tb,
                           "generator": case["generator"], "style": case["style"],
                           "builder": case["builder"], "episode": ep,
                           "template_instance": template, "episode_instance": matrices(env.instance)})
            break
    ctx.note_case(case, True, fingerprint=str(hash(str(
        (case["generator"], case["builder"], case["features"], case["reward"],
         case["updater_opts"], str(case["filter"]))))))


def run_case(ctx, case):
    (run_single if case["kind"] == "single" else run_multi)(ctx, case)
