"""Shared dispatch workload for C01 / C02 / C06: random + adversarial
histories, exhaustive trees, and library consumers that dispatch internally."""

from __future__ import annotations

import os
import random
import subprocess
import sys
import tempfile
from pathlib import Path

from .. import core, gen
from ..drive import Run, all_histories, gen_history_case

POLICIES = gen.POLICIES + ["mixed", "mixed"]


def gen_cases(ctx, n_hist, n_tree, n_consumer, tree_ops=(6, 7), big=False,
              classes=None, fractional=True):
    rng = ctx.rng
    for i in range(n_hist):
        if big and i % 10 == 0:
            c = gen_history_case(rng, classes=classes, max_jobs=10, max_machines=8,
                                 policies=POLICIES)
        else:
            c = gen_history_case(rng, classes=classes, max_jobs=rng.choice([3, 4, 5, 6]),
                                 max_machines=rng.choice([2, 3, 4, 5]),
                                 policies=POLICIES)
        c["kind"] = "history"
        if fractional and i % 12 == 5:
            # non-integral (dyadic) durations, no filter: start times must not be rounded
            c["instance"] = gen.gen_instance(rng, "fractional", max_jobs=4, max_machines=3)
            c["filter"] = None
            c["policy"] = rng.choice(["random_ready", "one_job_first", "round_robin", "last_machine"])
        # abandoned episodes: reset after a few steps (biased to very early), then a full episode
        if rng.random() < 0.3:
            c["abandon_after"] = [rng.choice([0, 1, 1, 2, 3, rng.randint(1, 12)])
                                  for _ in range(rng.choice([1, 1, 2]))]
        if rng.random() < 0.12:
            # the dispatcher is copied (copy.deepcopy) in the middle of the history and the copy
            # goes its own way: the two must not influence each other
            c["fork_at"] = rng.choice([1, 1, 2, 3, rng.randint(1, 10)])
        elif rng.random() < 0.06:
            c["raiser"] = True      # one observer raises once in the middle; the caller carries on
        elif rng.random() < 0.12:
            # a second dispatcher for the SAME instance object (same filter object) follows its own
            # history, interleaved with this one: the two must not influence each other
            c["sibling"] = True
        elif rng.random() < 0.08:
            # a rule solver with a user rule that fails midway is let loose on the dispatcher
            c["failing_solver"] = True
        yield c
    for i in range(2 if n_hist < 50000 else 28):
        # a job of more than 256 operations
        yield {"kind": "history", "instance": gen.long_instance(rng), "filter": gen.gen_filter_spec(rng),
               "policy": rng.choice(["random_ready", "one_job_first", "round_robin"]),
               "seed": rng.randrange(2**31)}
    for i in range(n_tree):
        inst = gen.gen_instance(rng, rng.choice(classes or gen.INSTANCE_CLASSES),
                                max_jobs=3, max_machines=3,
                                max_ops=rng.randint(*tree_ops))
        fs = gen.gen_filter_spec(rng) if rng.random() < 0.5 else None
        if fs and "dominated_operations" in fs["names"] and gen.has_zero(inst):
            fs = None  # tree enumeration needs an exact reference available set
        yield {"kind": "tree", "instance": inst, "filter": fs,
               "seed": rng.randrange(2**31), "limit": 400}
    kinds = ["solver", "env", "sequences", "frames"]
    for i in range(n_consumer):
        cls = rng.choice(classes or gen.INSTANCE_CLASSES)
        k = kinds[i % len(kinds)]
        if k == "sequences":
            cls = rng.choice(["classic", "irregular", "recirc", "gap", "zero_nf"])
        inst = gen.gen_instance(rng, cls, max_jobs=4, max_machines=4)
        yield {"kind": "consumer", "consumer": k, "instance": inst,
               "filter": gen.gen_filter_spec(rng), "seed": rng.randrange(2**31)}


def bench_cases(ctx, names):
    for i, name in enumerate(names):
        if i % ctx.nshards != ctx.shard:
            continue
        yield {"kind": "benchmark", "name": name,
               "filter": gen.gen_filter_spec(ctx.rng),
               "policy": ctx.rng.choice(POLICIES), "seed": ctx.rng.randrange(2**31)}


def inst_from_library(instance):
    return {
        "cls": "benchmark",
        "durations": [[op.duration for op in job] for job in instance.jobs],
        "machines": [[list(op.machines) for op in job] for job in instance.jobs],
    }


_KEPT_DECODED = []      # schedules decoded earlier in this process and still alive


class Hooks:
    def start(self, run): pass
    def reset(self, run): pass
    def accepted_invalid(self, run, o, m): pass
    def refused_add_changed_schedule(self, run, accepted, n_before): pass
    def fork_diverged(self, run, detail): pass
    def solver_returned_partial_schedule(self, schedule): pass
    def decoded_schedule_differs(self, got, want, where): pass
    def before(self, run): pass
    def after(self, run, o, m): pass
    def end(self, run): pass


def run_history(ctx, case, hooks: Hooks, instance=None):
    inst = case["instance"]
    run = Run(inst, case.get("filter"), instance=instance)
    rng = random.Random(case["seed"])
    look = random.Random(case["seed"] ^ 0x10057)     # own stream: existing cases keep their histories
    hooks.start(run)
    explicit = case.get("history")
    k = 0
    abandon = list(case.get("abandon_after") or []) if explicit is None else []
    fork_at = case.get("fork_at") if explicit is None else None
    raiser = None
    if case.get("raiser") and explicit is None:
        from job_shop_lib.dispatching import DispatcherObserver

        class Raiser(DispatcherObserver):
            _is_singleton = False

            def __init__(self, dispatcher, at):
                super().__init__(dispatcher)
                self.at, self.n = at, 0

            def update(self, scheduled_operation):
                self.n += 1
                if self.n == self.at:
                    raise RuntimeError("observer failure injected by the harness")

            def reset(self):
                pass
        raiser = Raiser(run.d, rng.randint(1, 4))
        ctx.count("histories_with_an_observer_that_fails_once")
    sib = None
    if case.get("sibling") and explicit is None:
        from job_shop_lib.dispatching import Dispatcher
        sib = Run(inst, case.get("filter"), instance=run.instance,
                  dispatcher=Dispatcher(run.instance,
                                        ready_operations_filter=run.d.ready_operations_filter))
        ctx.count("histories_with_a_sibling_dispatcher")
    while not run.done():
        if sib is not None and rng.random() < 0.6:
            if sib.done():
                sib.d.reset(); sib.r.reset()
            o9, m9 = sib.choose(rng, rng.choice(gen.POLICIES))
            sib.dispatch(o9, m9)
            ctx.count("sibling_dispatches")
            for who, x in (("sibling", sib), ("original", run)):
                bad = _state_vs_ref(x)
                if bad:
                    hooks.fork_diverged(run, dict(bad, who=who, when="after a dispatch on a second "
                                                  "dispatcher for the same instance object"))
                    return run
        if fork_at is not None and len(run.r.history) == fork_at:
            fork_at = None
            detail = _fork(ctx, run, case, rng)
            if detail:
                hooks.fork_diverged(run, detail)
                return run
            continue
        if abandon and len(run.r.history) >= abandon[0]:
            # abandon the episode: reset dispatcher and reference model, start over
            abandon.pop(0)
            run.d.reset()
            if rng.random() < 0.2:
                run.d.reset()       # resetting twice is resetting once
                ctx.count("double_resets")
            run.r.reset()
            ctx.count("abandoned_episodes")
            hooks.reset(run)
            continue
        hooks.before(run)
        if look.random() < 0.35 and not run.done():
            # look-ahead (wave 14, C01-30): the caller asks when operations that are not ready yet
            # could start, before their predecessors are dispatched - pure public queries, judged
            # in C05; here they only must not influence the schedule that is built afterwards
            pool = run.r.unscheduled()
            for o in look.sample(pool, min(len(pool), look.randint(1, 3))):
                run.d.start_time(run.op(o), look.choice(run.r.op_machines[o]))
                if look.random() < 0.3:
                    run.d.earliest_start_time(run.op(o))
            ctx.count("lookahead_queries")
        if explicit is None and case.get("failing_solver") and rng.random() < 0.12 \
                and raiser is None and not run.done():
            # a rule solver is handed the caller's dispatcher; the user's rule fails after a few
            # steps, the caller catches the error and carries on by hand (the reference follows
            # what the solver dispatched meanwhile)
            from job_shop_lib.dispatching import DispatcherObserver
            from job_shop_lib.dispatching.rules import DispatchingRuleSolver

            class Follow(DispatcherObserver):
                _is_singleton = False

                def __init__(self, dispatcher):
                    super().__init__(dispatcher)
                    self.seen = []

                def update(self, scheduled_operation):
                    self.seen.append(scheduled_operation)

                def reset(self):
                    pass
            left = [rng.randint(0, 3)]

            def failing_rule(dispatcher):
                if left[0] <= 0:
                    raise RuntimeError("user rule failed")
                left[0] -= 1
                return rng.choice(dispatcher.available_operations())
            follow = Follow(run.d)
            try:
                DispatchingRuleSolver(failing_rule, "random", ready_operations_filter=None).solve(
                    run.instance, run.d)
            except RuntimeError:
                ctx.count("solver_runs_aborted_by_a_failing_user_rule")
            run.d.unsubscribe(follow)
            for so in follow.seen:
                run.r.apply(so.operation.operation_id, so.machine_id)
            if follow.seen:
                so = follow.seen[-1]
                hooks.after(run, so.operation.operation_id, so.machine_id)
            if run.done():
                continue
        if explicit is None and rng.random() < 0.08:
            # a request the dispatcher has to refuse (ineligible in-range machine, operation that
            # is not its job's next one); if it is accepted the schedule is no longer feasible and
            # the contract layer reports it
            rr = run.r
            cand = []
            for o2 in rr.ready():
                cand += [(o2, m2) for m2 in range(rr.num_machines) if m2 not in rr.op_machines[o2]]
            cand += [(o2, rr.op_machines[o2][0]) for o2 in rr.unscheduled() if not rr.is_ready(o2)]
            # operations that are already scheduled, in particular the last one of a finished job
            cand += [(o2, rr.machine_of[o2]) for o2 in rr.scheduled()]
            cand += [(ids[-1], rr.machine_of[ids[-1]]) for ids, n in zip(rr.job_ops, rr.job_next)
                     if n == len(ids)] * 3
            if cand:
                o2, m2 = rng.choice(cand)
                ctx.count("refusable_requests_tried")
                try:
                    run.d.dispatch(run.ops[o2], m2)
                    accepted = True
                except Exception:
                    accepted = False
                if accepted:
                    ctx.count("refusable_requests_accepted")
                    hooks.accepted_invalid(run, o2, m2)
                    return run
        if explicit is None and rng.random() < 0.04 and run.r.history:
            # an operation handed directly to Schedule.add with a start time before the end of the
            # last operation on that machine is refused and must leave the schedule as it was
            from job_shop_lib import ScheduledOperation
            rr = run.r
            m3 = rng.choice([mm for mm in range(rr.num_machines) if rr.machine_seq[mm]])
            last = rr.machine_seq[m3][-1]
            cand3 = [o3 for o3 in range(rr.num_ops) if m3 in rr.op_machines[o3]]
            if rr.end[last] > 0 and cand3:
                o3 = rng.choice(cand3)
                n_before = run.d.schedule.num_scheduled_operations
                ctx.count("refused_direct_adds_tried")
                try:
                    run.d.schedule.add(ScheduledOperation(run.ops[o3], rr.end[last] - 1, m3)
                                       if rr.end[last] - 1 >= rr.start[last] and rr.op_dur[last] > 0
                                       else ScheduledOperation(run.ops[o3], -1, m3))
                    accepted = True
                except Exception:
                    accepted = False
                if accepted or run.d.schedule.num_scheduled_operations != n_before \
                        or run.d.schedule.is_complete() != (n_before == rr.num_ops):
                    hooks.refused_add_changed_schedule(run, accepted, n_before)
                    return run
        if explicit is None and rng.random() < 0.03 and run.r.history:
            # other library components look at the running dispatcher / its schedule in the middle
            # of the history: a helper observer is created late, the schedule is plotted, turned
            # into a dictionary ... none of this may change the schedule
            what = rng.choice(["late_observer", "late_observer", "late_observer", "to_dict", "to_dict", "plot",
                               "derived_instance", "derived_instance"])
            if what == "late_observer":
                from job_shop_lib.dispatching import UnscheduledOperationsObserver
                from job_shop_lib.dispatching.feature_observers import IsCompletedObserver
                run.d.create_or_get_observer(rng.choice([UnscheduledOperationsObserver, IsCompletedObserver]))
            elif what == "to_dict":
                run.d.schedule.to_dict()
            elif what == "derived_instance":
                # another instance is derived from a deep copy of this one's jobs (a sub-problem,
                # another job order): the original and its operations are none of its business
                import copy
                from job_shop_lib import JobShopInstance
                jobs2 = copy.deepcopy(run.instance.jobs)
                jobs2 = (jobs2[1:] or jobs2) if rng.random() < 0.5 else jobs2[::-1]
                JobShopInstance(jobs2, name="derived")
                stamps = [(op.job_id, op.position_in_job, op.operation_id) for op in run.ops]
                if stamps != [(run.r.op_job[i], run.r.op_pos[i], i) for i in range(run.r.num_ops)]:
                    hooks.fork_diverged(run, {"who": "original", "got": stamps[:12],
                                              "when": "after an instance was derived from a deep copy of its jobs "
                                                      "in the middle of the history"})
                    return run
            elif len(run.ops) <= 40 and inst.get("cls") != "fractional":
                import matplotlib.pyplot as plt
                from job_shop_lib.visualization import plot_gantt_chart
                fig, _ = plot_gantt_chart(run.d.schedule)
                plt.close(fig)
            ctx.count("mid_history_consumer_" + what)
            bad = _state_vs_ref(run)
            if bad:
                hooks.fork_diverged(run, dict(bad, who="original", when="after " + what + " in the middle of the history"))
                return run
        if explicit is not None:
            o, m = explicit[k]
        else:
            pol = case["policy"]
            if pol == "mixed":
                pol = rng.choice(gen.POLICIES)
            o, m = run.choose(rng, pol)
        try:
            run.dispatch(o, m, explicit_machine=rng.random() < 0.7)
        except RuntimeError:
            if raiser is None:
                raise
            # an observer failed during the notification: the caller carries on; whether the
            # operation counts is read from the schedule, everything else must agree with that
            ctx.count("dispatches_interrupted_by_a_failing_observer")
            if any(so.operation is run.ops[o] for lst in run.d.schedule.schedule for so in lst):
                run.r.apply(o, m)
            bad = _state_vs_ref(run)
            if bad:
                hooks.fork_diverged(run, dict(bad, who="original",
                                              when="after an observer raised in the middle of the history"))
                return run
            continue
        k += 1
        ctx.count("dispatches")
        hooks.after(run, o, m)
        if sib is not None:
            bad = _state_vs_ref(sib)
            if bad:
                hooks.fork_diverged(run, dict(bad, who="sibling", when="after a dispatch on the "
                                              "first dispatcher for the same instance object"))
                return run
    if raiser is not None and raiser in run.d.subscribers:
        run.d.unsubscribe(raiser)
    hooks.end(run)
    return run


def _state_vs_ref(run):
    from ..ref import schedule_triples
    d, r = run.d, run.r
    got = (schedule_triples(d.schedule), list(d.machine_next_available_time),
           list(d.job_next_available_time), list(d.job_next_operation_index))
    want = (r.triples(), list(r.machine_end), list(r.job_end), list(r.job_next))
    return None if got == want else {"got": got, "want": want, "history": list(r.history)}


def _fork(ctx, run, case, rng):
    """copy.deepcopy(dispatcher) mid-history; the copy continues on its own for a while (and is
    sometimes reset).  Returns a description if either dispatcher no longer matches the state
    implied by its own history."""
    import copy
    import pickle
    d2 = None
    if rng.random() < 0.35:
        try:
            d2 = pickle.loads(pickle.dumps(run.d))     # a serialisation round trip is a copy too
            ctx.count("forks_by_pickle")
        except Exception:
            d2 = None                                   # closures among filters / observers
    if d2 is None:
        d2 = copy.deepcopy(run.d)
    twin = Run(case["instance"], case.get("filter"), dispatcher=d2, instance=d2.instance)
    twin.r = run.r.clone()
    ctx.count("forks")
    left = twin.r.num_ops - len(twin.r.history)
    for _ in range(rng.randint(1, max(1, left))):
        if twin.done():
            break
        o, m = twin.choose(rng, rng.choice(gen.POLICIES))
        twin.dispatch(o, m)
        ctx.count("fork_dispatches")
        for who, x in (("copy", twin), ("original", run)):
            bad = _state_vs_ref(x)
            if bad:
                return dict(bad, who=who, when="after a dispatch on the copy")
    if rng.random() < 0.4:
        twin.d.reset()
        twin.r.reset()
        bad = _state_vs_ref(run)
        if bad:
            return dict(bad, who="original", when="after a reset of the copy")
    # one step on the original, then the copy must be untouched
    if not run.done():
        o, m = run.choose(rng, rng.choice(gen.POLICIES))
        run.dispatch(o, m)
        ctx.count("dispatches")
        for who, x in (("copy", twin), ("original", run)):
            bad = _state_vs_ref(x)
            if bad:
                return dict(bad, who=who, when="after a dispatch on the original")
    return None


def run_tree(ctx, case, hooks: Hooks):
    inst = case["instance"]
    names = None if case.get("filter") is None else case["filter"]["names"]
    n = 0
    for hist in all_histories(inst, names, limit=case.get("limit")):
        c = dict(case)
        c["history"] = hist
        run_history(ctx, c, hooks)
        n += 1
    ctx.count("tree_histories", n)
    return n


def run_consumer(ctx, case, hooks: Hooks):
    """Library components that drive a Dispatcher themselves."""
    inst = case["instance"]
    instance = gen.build(inst)
    rng = random.Random(case["seed"])
    kind = case["consumer"]
    fs = case.get("filter")
    if kind == "solver":
        from job_shop_lib.dispatching.rules import DispatchingRuleSolver

        rule = rng.choice(["shortest_processing_time", "first_come_first_served",
                           "most_work_remaining", "most_operations_remaining", "random"])
        if rng.random() < 0.25:
            # a user filter that may let nothing through: the solver either refuses (raises) or
            # returns a complete schedule - never a partial one as if it were the result
            fs = {"names": [rng.choice(gen.FILTER_NAMES[1:]), gen.HOLDING_FILTER], "form": "custom"}
            ctx.count("solver_runs_with_a_filter_that_may_empty_the_list")
        solver = DispatchingRuleSolver(
            dispatching_rule=rule, machine_chooser=rng.choice(["first", "random"]),
            ready_operations_filter=gen.make_filter(fs))
        try:
            S = solver.solve(instance) if rng.random() < 0.5 else solver(instance)
        except Exception:
            if gen.HOLDING_FILTER not in ((fs or {}).get("names") or []):
                raise
            S = None
            ctx.count("solver_refused_an_emptying_filter")
        if S is not None and not S.is_complete():
            hooks.solver_returned_partial_schedule(S)
    elif kind == "env":
        from job_shop_lib.graphs import build_disjunctive_graph, build_agent_task_graph
        from job_shop_lib.reinforcement_learning import SingleJobShopGraphEnv
        from job_shop_lib.dispatching.feature_observers import FeatureObserverType
        from job_shop_lib.dispatching import DispatcherObserverConfig

        builder = rng.choice([build_disjunctive_graph, build_agent_task_graph])
        env = SingleJobShopGraphEnv(
            builder(instance),
            [DispatcherObserverConfig(FeatureObserverType.IS_READY)],
            ready_operations_filter=gen.make_filter(fs))
        env.reset()
        done = False
        while not done:
            ops = env.dispatcher.available_operations()
            op = rng.choice(ops)
            m = rng.choice(op.machines)
            _, _, done, _, _ = env.step((op.job_id, m))
    elif kind == "sequences":
        from job_shop_lib import Schedule

        run = Run(inst, None, instance=instance)
        while not run.done():
            o, m = run.choose(rng, "random_ready")
            run.dispatch(o, m)
        seqs = [[so.job_id for so in lst] for lst in run.d.schedule.schedule]
        S1 = Schedule.from_job_sequences(instance, seqs)
        from ..ref import schedule_triples
        t1 = schedule_triples(S1)
        if t1 != run.r.triples():
            hooks.decoded_schedule_differs(t1, run.r.triples(), "decoded from the job sequences of a history")
        # a second decode for the same instance object (other sequences) leaves the first result alone
        run2 = Run(inst, None, instance=instance)
        while not run2.done():
            o, m = run2.choose(rng, rng.choice(["random_ready", "one_job_first", "latest_start"]))
            run2.dispatch(o, m)
        S2 = Schedule.from_job_sequences(
            instance, [[so.job_id for so in lst] for lst in run2.d.schedule.schedule])
        if schedule_triples(S1) != t1:
            hooks.decoded_schedule_differs(schedule_triples(S1), t1,
                                           "first decoded schedule after a second decode for the same instance")
        if schedule_triples(S2) != run2.r.triples():
            hooks.decoded_schedule_differs(schedule_triples(S2), run2.r.triples(), "second decode")
        S3 = Schedule.from_dict(**run.d.schedule.to_dict())
        _KEPT_DECODED.append(S3)         # earlier results stay referenced by their owner
        del _KEPT_DECODED[:-300]
        if schedule_triples(S3) != run.r.triples():
            hooks.decoded_schedule_differs(schedule_triples(S3), run.r.triples(), "from_dict(**to_dict())")
    elif kind == "frames":
        from job_shop_lib.visualization import create_gantt_chart_frames
        from job_shop_lib.dispatching import HistoryObserver

        run = Run(inst, fs, instance=instance)
        h = HistoryObserver(run.d)
        while not run.done():
            o, m = run.choose(rng, "random_available")
            run.dispatch(o, m)
        from matplotlib.figure import Figure

        with tempfile.TemporaryDirectory(prefix="jsv-frames-") as td:
            def plot(schedule, makespan=None, available_operations=None,
                     current_time=None):
                return Figure(figsize=(0.3, 0.3), dpi=20)
            create_gantt_chart_frames(td, instance, None, plot, True, h.history)
    ctx.count("consumer_" + kind)


def run_repo_tests_under_contracts(ctx, which):
    """Thorough ride-along: the repository's own suite with the contract layer
    installed (a pytest plugin writes violations to a file)."""
    with tempfile.TemporaryDirectory(prefix="jsv-pytest-") as td:
        out = Path(td) / "violations.jsonl"
        env = dict(os.environ)
        env["JSVERIF_PYTEST_OUT"] = str(out)
        env["JSVERIF_PYTEST_KINDS"] = which
        env["PYTHONPATH"] = str(core.ROOT) + os.pathsep + env.get("PYTHONPATH", "")
        pr = subprocess.run(
            [sys.executable, "-m", "pytest", "-q", "-x", "-p", "no:cacheprovider",
             "-p", "jsverif.pytest_plugin", "--timeout=900",
             str(core.REPO / "tests" / "dispatching"),
             str(core.REPO / "tests" / "test_schedule.py"),
             str(core.REPO / "tests" / "reinforcement_learning"),
             str(core.REPO / "tests" / "graphs")],
            cwd=str(core.REPO), env=env, capture_output=True, text=True, timeout=1500)
        import json
        lines = out.read_text().splitlines() if out.exists() else []
        summary = None
        viols = []
        for ln in lines:
            rec = json.loads(ln)
            if rec.get("summary"):
                summary = rec
            else:
                viols.append(rec)
        return pr.returncode, summary, viols, pr.stdout[-800:]
