"""C10 - observers see every dispatch once, in order, after it took effect."""

from __future__ import annotations

import random

from .. import gen

gen.WIDE_RATE = 0.01   # wide (~100 operation) instances are costly here: a small share
from ..drive import Run, gen_history_case

ID = "C10"
LEVEL = "exploration"
RULE = (
    "seeded histories interleaved at random with subscribe / unsubscribe of 1-6 "
    "recording observers, built-in observers, resets, rejected requests, singleton "
    "constructions and create_or_get_observer calls; every cached query is warmed "
    "right before each dispatch. Each recorder logs (global sequence number, "
    "observer, event, operation) and, inside update(), what the dispatcher's "
    "queries and schedule show. Offline the log must equal the expected log built "
    "from the model (subscription list x accepted dispatches, in order, exactly "
    "once; one reset per subscriber; nothing for rejected requests) and every "
    "in-update observation must be the post-state. distinct = (instance, event "
    "script); non-trivial = >= 2 recorders were subscribed during some dispatch and "
    "at least one unsubscribe or reset happened"
)
ANCHORS = [
    "job_shop_lib.dispatching._dispatcher:Dispatcher._update_tracking_attributes",
    "job_shop_lib.dispatching._dispatcher:Dispatcher.reset",
    "job_shop_lib.dispatching._dispatcher:Dispatcher.subscribe",
    "job_shop_lib.dispatching._dispatcher:Dispatcher.unsubscribe",
    "job_shop_lib.dispatching._dispatcher:DispatcherObserver.__init__",
    "job_shop_lib.dispatching._dispatcher:Dispatcher.create_or_get_observer",
    "job_shop_lib.dispatching._history_observer:HistoryObserver.update",
    "job_shop_lib.dispatching._history_observer:HistoryObserver.reset",
]
ASSUMPTIONS = [
    "hand-subscribing two singleton observers built with subscribe=False is counted, not judged "
    "(the property's anchor is the constructor guard)",
]
REQUIRED_COUNTERS = {"mid_reset_unsubscriptions": 20, "observers_built_unsubscribed": 50, "composite_before_child": 20, "mid_round_unsubscriptions": 30, "history_observer_created_mid_history": 20, "update_events_checked": 2000, "reset_events_checked": 50,
                     "rejected_requests": 50, "singleton_guard_checks": 50,
                     "create_or_get_checks": 50, "unsubscribes": 50,
                     "history_observer_checks": 200}
WORKERS = {"quick": 1, "thorough": 14}


def gen_cases(ctx):
    rng = ctx.rng
    for i in range(ctx.scale(5000, 900000)):
        c = gen_history_case(rng, max_jobs=rng.choice([2, 3, 4, 5]), max_machines=rng.choice([2, 3, 4]))
        c["kind"] = "interleaving"
        yield c
    for i in range(ctx.scale(30, 3000)):
        # the observers the multi-instance environment manages for the user: a reward observer
        # swapped in through the env's setter is notified once per step, like everybody else
        yield {"kind": "multi_env_observers", "seed": rng.randrange(2**31), "instance": {"cls": "generated"},
               "filter": None, "policy": "random_available"}


def make_classes(sized=False):
    from job_shop_lib.dispatching import DispatcherObserver

    class Recorder(DispatcherObserver):
        _is_singleton = False

        def __init__(self, dispatcher, *, subscribe=True, label=None, log=None, probe=None):
            self.label, self.log, self.probe = label, log, probe
            super().__init__(dispatcher, subscribe=subscribe)

        def update(self, scheduled_operation):
            self.log.append((self.label, "update", scheduled_operation,
                             self.probe(self.dispatcher, scheduled_operation)))
            # optional one-shot action performed from inside the notification round
            act, self.pending_action = getattr(self, "pending_action", None), None
            if act is not None:
                act()

        def reset(self):
            self.log.append((self.label, "reset", None, self.probe(self.dispatcher, None)))
            act, self.pending_reset_action = getattr(self, "pending_reset_action", None), None
            if act is not None:
                act()

    class SingleRecorder(Recorder):
        _is_singleton = True

    if sized:
        # record-like observers are often sized containers: empty (falsy) right after their
        # creation and after a reset
        def _len(self):
            n = 0
            for e in reversed(self.log):
                if e[0] == self.label:
                    if e[1] == "reset":
                        break
                    n += 1
            return n
        Recorder.__len__ = _len
    return Recorder, SingleRecorder


def probe(d, so):
    """What is visible from inside a notification."""
    out = {
        "n": d.schedule.num_scheduled_operations,
        "next_idx": list(d.job_next_operation_index),
        "m_next": list(d.machine_next_available_time),
        "j_next": list(d.job_next_available_time),
        "now": d.current_time(),
        "sched": sorted(o.operation_id for o in d.scheduled_operations()),
        "unsched": sorted(o.operation_id for o in d.unscheduled_operations()),
        "ready": [o.operation_id for o in d.raw_ready_operations()],
        "makespan": d.schedule.makespan(),
    }
    if so is not None:
        lst = d.schedule.schedule[so.machine_id]
        out["is_scheduled"] = d.is_scheduled(so.operation)
        out["last_on_machine_is_so"] = bool(lst) and lst[-1] is so
    return out


def warm(d):
    d.current_time(); d.available_operations(); d.raw_ready_operations()
    d.unscheduled_operations(); d.scheduled_operations(); d.available_machines()
    d.available_jobs(); d.completed_operations(); d.ongoing_operations()
    list(d.uncompleted_operations())


def run_multi_env_observers(ctx, case):
    from job_shop_lib.dispatching import DispatcherObserver, DispatcherObserverConfig
    from job_shop_lib.generation import GeneralInstanceGenerator
    from job_shop_lib.reinforcement_learning import IdleTimeReward, MakespanReward, MultiJobShopGraphEnv
    rng = random.Random(case["seed"])
    g = GeneralInstanceGenerator(num_jobs=(2, 4), num_machines=(2, 3), duration_range=(1, 9),
                                 seed=case["seed"] % 100000)
    env = MultiJobShopGraphEnv(g, [DispatcherObserverConfig("is_ready")])

    class Count(DispatcherObserver):
        _is_singleton = False
        n = 0

        def update(self, scheduled_operation):
            self.n += 1

        def reset(self):
            self.n = 0
    for ep in range(2):
        env.reset()
        probe = Count(env.dispatcher)
        new_reward = None
        if ep == 1 or rng.random() < 0.5:
            new_reward = IdleTimeReward(env.dispatcher)      # built the ordinary, self-subscribing way
            env.reward_function = new_reward
            ctx.count("reward_observer_swapped_through_the_env_setter")
        steps = 0
        done = False
        while not done:
            op = rng.choice(env.dispatcher.available_operations())
            done = env.step((op.job_id, rng.choice(op.machines)))[2]
            steps += 1
            subs = env.dispatcher.subscribers
            ctx.count("update_events_checked")
            w = {"episode": ep, "steps": steps, "subscribers": [type(x).__name__ for x in subs]}
            if len({id(x) for x in subs}) != len(subs):
                ctx.violation("c10_observer_subscribed_twice", w)
                return
            if probe.n != steps or (new_reward is not None and len(new_reward.rewards) != steps):
                ctx.violation("c10_observer_not_notified_exactly_once_per_dispatch",
                              dict(w, probe=probe.n,
                                   reward_events=None if new_reward is None else len(new_reward.rewards)))
                return
    ctx.count("multi_env_observer_runs")
    ctx.note_case(case, True, fingerprint="multi-observers:%s" % case["seed"])


def run_case(ctx, case):
    if case.get("kind") == "multi_env_observers":
        return run_multi_env_observers(ctx, case)
    from job_shop_lib.dispatching import HistoryObserver, UnscheduledOperationsObserver
    from job_shop_lib.dispatching.feature_observers import IsReadyObserver, DurationObserver, FeatureType
    from job_shop_lib.exceptions import ValidationError

    rng = random.Random(case["seed"])
    sized = case["seed"] % 5 == 2
    Recorder, SingleRecorder = make_classes(sized)
    if sized:
        ctx.count("histories_with_sized_falsy_when_empty_observers")
    run = Run(case["instance"], case.get("filter"))
    d, r = run.d, run.r
    log = []
    expected = []   # (label, event, op_id)
    subs = []       # model of the subscription list (objects)
    labels = {}
    script = []
    counter = [0]

    def new_label():
        counter[0] += 1
        return f"R{counter[0]}"

    def add_recorder(cls=Recorder):
        lb = new_label()
        if case["seed"] % 6 == 3:
            # a user who seeds the global random generator before building each component (for
            # reproducibility): observers are told apart by identity, not by anything drawn
            import random as _random
            _random.seed(20261003)
            ctx.count("observers_created_right_after_reseeding_the_global_generator")
        ob = cls(d, label=lb, log=log, probe=probe)
        subs.append(ob); labels[id(ob)] = lb
        script.append(("sub", lb))
        return ob

    def check_subscribers(where):
        if [id(s) for s in d.subscribers] != [id(s) for s in subs]:
            ctx.violation("c10_subscriber_list_differs_from_model",
                          {"where": where, "got": [repr(s) for s in d.subscribers],
                           "want": [labels.get(id(s), repr(s)) for s in subs]})
            return False
        return True

    for _ in range(rng.randint(1, 3)):
        add_recorder()
    if case["seed"] % 11 == 6:
        # an observer given priority by hand: built unsubscribed and put at the head of the public
        # `subscribers` list (the list is the subscription order)
        lb = new_label()
        ob = Recorder(d, subscribe=False, label=lb, log=log, probe=probe)
        d.subscribers.insert(0, ob)
        subs.insert(0, ob); labels[id(ob)] = lb
        script.append(("inserted_at_head", lb))
        ctx.count("observers_inserted_at_the_head_of_the_subscribers_list")
    # observers built with subscribe=False are not subscribers and receive nothing
    from job_shop_lib.dispatching.feature_observers import (FeatureObserver, CompositeFeatureObserver,
                                                           IsScheduledObserver)

    class CountingFeature(FeatureObserver):
        """a feature observer that counts what it receives"""
        def initialize_features(self):
            pass

        def update(self, scheduled_operation):
            self.n_updates = getattr(self, "n_updates", 0) + 1

        def reset(self):
            self.n_resets = getattr(self, "n_resets", 0) + 1

    silent = []
    if rng.random() < 0.5:
        before_ids = [id(x) for x in d.subscribers]
        silent.append(Recorder(d, subscribe=False, label="SILENT", log=log, probe=probe))
        silent.append(CountingFeature(d, subscribe=False))
        silent.append(IsScheduledObserver(d, subscribe=False))
        silent.append(UnscheduledOperationsObserver(d, subscribe=False))
        ctx.count("observers_built_unsubscribed", len(silent))
        if [id(x) for x in d.subscribers] != before_ids:
            ctx.violation("c10_subscribe_false_observer_was_subscribed",
                          {"subscribers": [repr(x) for x in d.subscribers]})
    # a composite whose child is attached by hand AFTER it: the child is still notified once
    late_child = None
    if rng.random() < 0.3:
        late_child = CountingFeature(d, subscribe=False)
        comp = CompositeFeatureObserver(d, feature_observers=[late_child])
        d.subscribe(late_child)
        subs.append(comp); labels[id(comp)] = "COMPOSITE"
        subs.append(late_child); labels[id(late_child)] = "LATE_CHILD"
        ctx.count("composite_before_child")
    hist = None
    if rng.random() < 0.7:
        if case["seed"] % 3 == 1:
            # the user's own flavour of the history observer (still a HistoryObserver, still a
            # singleton); with `sized` it also is a sized container
            class OwnHistory(HistoryObserver):
                pass
            if sized:
                OwnHistory.__len__ = lambda self: len(self.history)
            hist = OwnHistory(d)
            ctx.count("history_observer_is_a_user_subclass")
        else:
            hist = HistoryObserver(d)
        subs.append(hist); labels[id(hist)] = "HIST"
    model_hist = []   # dispatches since last reset while hist subscribed... (hist subscribed from start)
    parked = None     # (history observer that was unsubscribed, what it had recorded by then)
    hist_resubscribed = False
    max_rec = 0
    disturb = 0
    steps = 0
    while not run.done() and steps < 200:
        steps += 1
        ev = rng.random()
        recs = [s for s in subs if isinstance(s, Recorder)]
        if parked is not None and not any(isinstance(x, HistoryObserver) for x in subs) \
                and rng.random() < 0.35:
            # the history observer that left comes back (dispatcher.subscribe by hand): nothing
            # reached it meanwhile, and from now on it records every dispatch again
            ob, kept = parked
            parked = None
            got = [so.operation.operation_id for so in ob.history]
            if got != kept:
                ctx.violation("c10_unsubscribed_observer_was_notified",
                              {"observer": "HistoryObserver", "records_when_it_left": kept,
                               "records_now": got, "script": script})
            d.subscribe(ob); subs.append(ob)
            hist, model_hist, hist_resubscribed = ob, list(kept), True
            script.append(("resubscribe_history_observer",))
            ctx.count("history_observer_resubscribed")
        if rng.random() < 0.04 and not run.done():
            # a deep copy of the dispatcher (look-ahead) is dispatched on and reset: the original's
            # observers hear nothing of it
            import copy
            n_log = len(log)
            hist_before = None if hist is None else len(hist.history)
            dup = copy.deepcopy(d)
            nxt = dup.raw_ready_operations()[0]
            dup.dispatch(nxt, nxt.machines[0])
            if rng.random() < 0.5:
                dup.reset()
            ctx.count("dispatches_on_a_deep_copy")
            if len(log) != n_log or (hist is not None and len(hist.history) != hist_before):
                ctx.violation("c10_dispatch_on_a_deep_copy_notified_the_original_observers",
                              {"new_events": [(e[0], e[1]) for e in log[n_log:]], "script": script})
                return
            if [id(x) for x in d.subscribers] != [id(x) for x in subs]:
                ctx.violation("c10_subscriber_list_differs_from_model",
                              {"where": "after a deep copy was used", "script": script})
                return
        if ev < 0.10 and len(recs) < 6:
            add_recorder()
        elif ev < 0.18 and recs:
            # any subscriber may leave: recorders, the history observer, built-in observers
            pool = recs + [x for x in subs if not isinstance(x, Recorder) and rng.random() < 0.5
                           and labels.get(id(x)) not in ("COMPOSITE", "LATE_CHILD")]
            ob = rng.choice(pool)
            d.unsubscribe(ob); subs.remove(ob)
            if ob is hist:
                if model_hist is not None:
                    parked = (hist, list(model_hist))
                hist, model_hist = None, None
                ctx.count("history_observer_unsubscribed")
            script.append(("unsub", labels[id(ob)])); ctx.count("unsubscribes"); disturb += 1
        elif ev < 0.24:
            # built-in observers mixed in (subscribed silently by their constructors)
            kind = rng.choice(["unsched", "isready", "duration", "remaining", "is_completed_jobs",
                               "is_completed_all", "updater"])
            try:
                if kind == "unsched":
                    ob = UnscheduledOperationsObserver(d)
                elif kind == "isready":
                    ob = IsReadyObserver(d)
                elif kind == "remaining":
                    from job_shop_lib.dispatching.feature_observers import RemainingOperationsObserver
                    ob = RemainingOperationsObserver(d)
                elif kind == "is_completed_jobs":
                    from job_shop_lib.dispatching.feature_observers import IsCompletedObserver
                    ob = IsCompletedObserver(d, feature_types=[FeatureType.JOBS])
                elif kind == "is_completed_all":
                    from job_shop_lib.dispatching.feature_observers import IsCompletedObserver
                    ob = IsCompletedObserver(d)
                elif kind == "updater":
                    if any(type(x).__name__ == "ResidualGraphUpdater" for x in subs):
                        continue
                    from job_shop_lib.graphs import build_agent_task_graph
                    from job_shop_lib.graphs.graph_updaters import ResidualGraphUpdater
                    ob = ResidualGraphUpdater(d, build_agent_task_graph(run.instance))
                else:
                    ob = DurationObserver(d, feature_types=[FeatureType.JOBS])
                # the constructor may have brought helper observers along (subscribed before it) -
                # but create-or-get hands out a subscribed observer that already matches
                for x in d.subscribers:
                    if all(x is not y for y in subs):
                        def covers0(y, x=x):
                            fy, fx = getattr(y, "features", None), getattr(x, "features", None)
                            return type(y) is type(x) and isinstance(fy, dict) and isinstance(fx, dict) \
                                and set(fx) <= set(fy)
                        if x is not ob and any(covers0(y) for y in subs):
                            ctx.violation("c10_create_or_get_did_not_return_existing",
                                          {"which": "helper of " + kind, "type": type(x).__name__,
                                           "script": script})
                            return
                        subs.append(x); labels[id(x)] = type(x).__name__
                script.append(("builtin", kind))
            except ValidationError:
                script.append(("builtin_rejected", kind))
        elif ev < 0.31:
            warm(d)
            recs_r = [x for x in subs if isinstance(x, Recorder)]
            actor_r = victim_r = None
            if len(recs_r) >= 2 and rng.random() < 0.3:
                actor_r, victim_r = rng.choice(recs_r), rng.choice(recs_r)

                def act_r(victim=victim_r):
                    if victim in d.subscribers:
                        d.unsubscribe(victim)
                actor_r.pending_reset_action = act_r
                ctx.count("mid_reset_unsubscriptions")
                script.append(("mid_reset_unsub", labels[id(actor_r)], labels[id(victim_r)]))
            d.reset(); r.reset()
            if model_hist is not None:
                model_hist = []
            order_r = list(subs)
            gone_r = None
            for s in order_r:
                if s is gone_r:
                    continue
                if isinstance(s, Recorder):
                    expected.append((labels[id(s)], "reset", None, len(log)))
                if s is actor_r and victim_r is not None:
                    if order_r.index(victim_r) > order_r.index(actor_r):
                        gone_r = victim_r
                    subs.remove(victim_r)
                    actor_r = None
            if hist is not None and hist in subs and hist.history:
                ctx.violation("c10_history_observer_not_reset", {"records": len(hist.history), "script": script})
            script.append(("reset",)); ctx.count("resets"); disturb += 1
            # a reset notifies; it drops nobody.  A built-in observer may re-create a helper observer
            # the user had unsubscribed - but never a second one of a kind that is still subscribed
            # (create-or-get returns the subscribed observer that matches)
            for x in d.subscribers:
                if all(x is not y for y in subs):
                    def covers(y, x=x):
                        fy, fx = getattr(y, "features", None), getattr(x, "features", None)
                        return type(y) is type(x) and (
                            not isinstance(fy, dict) or not isinstance(fx, dict) or set(fx) <= set(fy))
                    if any(covers(y) for y in subs):
                        ctx.violation("c10_reset_subscribed_a_duplicate_helper_observer",
                                      {"type": type(x).__name__, "script": script,
                                       "subscribers": [type(y).__name__ for y in d.subscribers]})
                        return
                    subs.append(x); labels[id(x)] = type(x).__name__
            if not check_subscribers("after reset"):
                return
        elif ev < 0.40:
            # rejected request: nobody may be notified
            n0 = len(log)
            sched = r.scheduled()
            try:
                if sched and rng.random() < 0.5:
                    o = rng.choice(sched)
                    d.dispatch(run.op(o), r.op_machines[o][0])
                else:
                    o = rng.choice(r.ready())
                    d.dispatch(run.op(o), r.num_machines + 3)
                ctx.violation("c10_invalid_request_accepted", {"script": script})
                return
            except Exception:
                pass
            ctx.count("rejected_requests")
            if len(log) != n0:
                ctx.violation("c10_notification_on_rejected_dispatch",
                              {"events": [(e[0], e[1]) for e in log[n0:]], "script": script})
            script.append(("rejected",))
        elif ev < 0.46:
            # singleton guard
            ctx.count("singleton_guard_checks")
            before = [id(s) for s in d.subscribers]
            target = rng.choice(["hist", "single"])
            if target == "hist":
                exists = any(isinstance(s, HistoryObserver) for s in subs)
                try:
                    ob = HistoryObserver(d)
                    if exists:
                        ctx.violation("c10_second_singleton_accepted",
                                      {"type": "HistoryObserver", "script": script})
                        return
                    subs.append(ob); labels[id(ob)] = "HIST"
                    if hist is None:
                        # subscribed mid-history: it must record the dispatches made from now on
                        hist = ob; model_hist = []; ctx.count("history_observer_created_mid_history")
                        if ob.history:
                            ctx.violation("c10_history_observer_born_with_records",
                                          {"records": len(ob.history), "script": script})
                except ValidationError:
                    if not exists:
                        ctx.violation("c10_singleton_rejected_without_existing",
                                      {"type": "HistoryObserver", "script": script})
                    elif [id(s) for s in d.subscribers] != before:
                        ctx.violation("c10_failed_singleton_changed_subscribers", {"script": script})
            else:
                exists = any(isinstance(s, SingleRecorder) for s in subs)
                try:
                    ob = add_recorder(SingleRecorder)
                    if exists:
                        ctx.violation("c10_second_singleton_accepted",
                                      {"type": "SingleRecorder", "script": script})
                        return
                except ValidationError:
                    counter[0] -= 0
                    if not exists:
                        ctx.violation("c10_singleton_rejected_without_existing",
                                      {"type": "SingleRecorder", "script": script})
                    elif [id(s) for s in d.subscribers] != before:
                        ctx.violation("c10_failed_singleton_changed_subscribers", {"script": script})
            script.append(("singleton", target))
        elif ev < 0.53:
            # create_or_get_observer
            ctx.count("create_or_get_checks")
            which = rng.choice(["hist", "recorder_label", "recorder_none", "duration_jobs"])
            n_before = len(d.subscribers)
            if which == "hist":
                existing = [s for s in subs if isinstance(s, HistoryObserver)]
                got = d.create_or_get_observer(HistoryObserver)
                if existing:
                    if got is not existing[0] or len(d.subscribers) != n_before:
                        ctx.violation("c10_create_or_get_did_not_return_existing",
                                      {"which": which, "script": script})
                else:
                    if not isinstance(got, HistoryObserver) or d.subscribers[-1] is not got \
                            or len(d.subscribers) != n_before + 1:
                        ctx.violation("c10_create_or_get_did_not_create", {"which": which, "script": script})
                    subs.append(got); labels[id(got)] = "HIST"
                    if hist is None:
                        hist = got; model_hist = []; ctx.count("history_observer_created_mid_history")
                        if got.history:
                            ctx.violation("c10_history_observer_born_with_records",
                                          {"records": len(got.history), "script": script})
            elif which == "recorder_label" and recs:
                target = rng.choice(recs)
                got = d.create_or_get_observer(
                    Recorder, condition=lambda o: getattr(o, "label", None) == target.label,
                    label="never", log=log, probe=probe)
                if got is not target or len(d.subscribers) != n_before:
                    ctx.violation("c10_create_or_get_did_not_return_matching",
                                  {"which": which, "want": target.label,
                                   "got": getattr(got, "label", repr(got)), "script": script})
                    if got is not target and got in d.subscribers and got not in subs:
                        subs.append(got); labels[id(got)] = got.label
            elif which == "recorder_none":
                lb = new_label()
                got = d.create_or_get_observer(
                    Recorder, condition=lambda o: False, label=lb, log=log, probe=probe)
                if not isinstance(got, Recorder) or got.label != lb or d.subscribers[-1] is not got \
                        or len(d.subscribers) != n_before + 1:
                    ctx.violation("c10_create_or_get_did_not_create", {"which": which, "script": script})
                subs.append(got); labels[id(got)] = lb
            else:
                existing = [s for s in subs if isinstance(s, DurationObserver)
                            and FeatureType.JOBS in s.features]
                got = d.create_or_get_observer(
                    DurationObserver, condition=lambda o: FeatureType.JOBS in o.features,
                    feature_types=[FeatureType.JOBS])
                if existing:
                    if got is not existing[0] or len(d.subscribers) != n_before:
                        ctx.violation("c10_create_or_get_did_not_return_existing",
                                      {"which": which, "script": script})
                else:
                    if len(d.subscribers) != n_before + 1 or list(got.features) != [FeatureType.JOBS]:
                        ctx.violation("c10_create_or_get_did_not_create", {"which": which, "script": script})
                    subs.append(got); labels[id(got)] = "DurationObserver"
            script.append(("create_or_get", which))
        else:
            # accepted dispatch
            if not check_subscribers("before dispatch"):
                return
            o, m = run.choose(rng, case["policy"] if case["policy"] != "mixed" else "random_ready")
            warm(d)
            recs_now = [s for s in subs if isinstance(s, Recorder)]
            # sometimes an observer unsubscribes itself / a later / an earlier observer from
            # inside its update(): observers unsubscribed before their turn receive nothing,
            # everybody else is notified exactly once, in order
            victim = actor = None
            newcomer = []
            if len(recs_now) >= 2 and rng.random() < 0.15:
                actor = rng.choice(recs_now)
                victim = rng.choice(recs_now)

                swap_in = rng.random() < 0.4

                def act(actor=actor, victim=victim):
                    if victim in d.subscribers:
                        d.unsubscribe(victim)
                        if swap_in:
                            # ... and a replacement is subscribed in the same breath (the number of
                            # subscribers is unchanged); it is notified from the next dispatch on
                            newcomer.append(add_recorder())
                            subs.remove(newcomer[0])   # joins the model after this round
                actor.pending_action = act
                if swap_in:
                    ctx.count("mid_round_swaps")
                ctx.count("mid_round_unsubscriptions")
                script.append(("mid_round_unsub", labels[id(actor)], labels[id(victim)]))
            n0 = len(log)
            failing = None
            if victim is None and subs and isinstance(subs[-1], Recorder) and rng.random() < 0.08:
                # the observer notified last fails inside its update(); the caller catches the error
                # and carries on with the same dispatcher: every later dispatch / reset still
                # notifies every subscriber
                failing = subs[-1]

                def boom():
                    raise RuntimeError("user observer failed")
                failing.pending_action = boom
                script.append(("last_observer_raises", labels[id(failing)]))
            try:
                run.dispatch(o, m)
            except RuntimeError:
                if failing is None:
                    raise
                ctx.count("dispatches_with_a_failing_last_observer")
                if any(so.operation is run.op(o) for lst in d.schedule.schedule for so in lst):
                    r.apply(o, m)
                else:
                    # the library chose to undo the dispatch: what the observers were told about it
                    # is not judged
                    ctx.count("dispatch_undone_after_an_observer_failure")
                    return
            max_rec = max(max_rec, len(recs_now))
            order = [s for s in subs]          # subscription order at the start of the round
            gone = None
            for s in order:
                if s is gone:
                    continue                   # unsubscribed before its turn
                if isinstance(s, Recorder):
                    expected.append((labels[id(s)], "update", o, None))
                if s is actor and victim is not None and gone is None:
                    # the actor's action takes effect right after its own notification
                    if order.index(victim) > order.index(actor):
                        gone = victim
                    subs.remove(victim)
                    if victim is hist:
                        pass
                    actor = None
            if newcomer:
                subs.append(newcomer[0])
            if model_hist is not None:
                model_hist.append(o)
            script.append(("dispatch", o, m))
            # post-state visibility, judged against the reference model
            want = {
                "n": len(r.history), "next_idx": list(r.job_next), "m_next": list(r.machine_end),
                "j_next": list(r.job_end), "sched": sorted(r.scheduled()),
                "unsched": sorted(r.unscheduled()), "ready": r.ready(), "makespan": r.makespan(),
                "is_scheduled": True, "last_on_machine_is_so": True,
            }
            if run.clock_exact:
                want["now"] = r.current_time(None)
            for lb, evn, so, seen in log[n0:]:
                ctx.count("update_events_checked")
                bad = {k: (seen.get(k), v) for k, v in want.items() if seen.get(k) != v}
                if evn != "update" or so is None or so.operation is not run.op(o) \
                        or so.start_time != r.start[o] or so.machine_id != m:
                    ctx.violation("c10_wrong_notification_payload",
                                  {"observer": lb, "event": evn, "script": script})
                elif bad:
                    ctx.violation("c10_notified_before_state_took_effect",
                                  {"observer": lb, "stale": bad, "script": script})
            if hist is not None and hist in subs and model_hist is not None:
                ctx.count("history_observer_checks")
                got = [so.operation.operation_id for so in hist.history]
                same_objs = hist_resubscribed or all(
                    any(so is x for x in d.schedule.schedule[so.machine_id]) for so in hist.history)
                if got != model_hist or not same_objs:
                    ctx.violation("c10_history_observer_record_differs",
                                  {"got": got, "want": model_hist, "same_objects": same_objs,
                                   "script": script})
    for ob in silent:
        got_u, got_r = getattr(ob, "n_updates", 0), getattr(ob, "n_resets", 0)
        if got_u or got_r or any(e[0] == "SILENT" for e in log):
            ctx.violation("c10_unsubscribed_observer_was_notified",
                          {"observer": type(ob).__name__, "updates": got_u, "resets": got_r})
    if late_child is not None and late_child in subs:
        n_disp = sum(1 for e in script if e[0] == "dispatch")
        n_reset = sum(1 for e in script if e[0] == "reset")
        if getattr(late_child, "n_updates", 0) != n_disp or getattr(late_child, "n_resets", 0) != n_reset:
            ctx.violation("c10_child_of_composite_notified_wrong_number_of_times",
                          {"updates": getattr(late_child, "n_updates", 0), "dispatches": n_disp,
                           "resets": getattr(late_child, "n_resets", 0), "resets_expected": n_reset})
    # ---------------------------------------------------------------- offline log check
    got_log = [(lb, evn, None if so is None else so.operation.operation_id) for lb, evn, so, _ in log]
    want_log = [(lb, evn, o) for lb, evn, o, _ in expected]
    ctx.count("reset_events_checked", sum(1 for e in got_log if e[1] == "reset"))
    if got_log != want_log:
        k = next((i for i, (a, b) in enumerate(zip(got_log, want_log)) if a != b),
                 min(len(got_log), len(want_log)))
        ctx.violation("c10_notification_log_differs_from_expected",
                      {"first_difference_at": k, "got": got_log[max(0, k - 3):k + 4],
                       "want": want_log[max(0, k - 3):k + 4], "script": script})
    check_subscribers("end")
    ctx.note_case(case, max_rec >= 2 and disturb >= 1,
                  fingerprint=str(hash((gen.fingerprint(case["instance"]), tuple(map(str, script))))))
    ctx.count("class_" + case["instance"]["cls"])
