"""C17 - residual graph hides only the decided and everything done."""

from __future__ import annotations

import random

from .. import gen
from ..drive import Run, gen_history_case

ID = "C17"
LEVEL = "exploration"
RULE = (
    "seeded histories on positive-duration instances (flexible and not) with a "
    "ResidualGraphUpdater attached to the graph of each of the four builders, all "
    "combinations of remove_completed_machine_nodes / remove_completed_job_nodes, "
    "filter None or dominated, from construction and after an initial reset; after "
    "EVERY dispatch: completed ops (reference) subset removed op nodes subset "
    "scheduled ops, machine/job node removed only if all its operations are "
    "scheduled, removed(k) subset removed(k+1), no edge touches a removed node, "
    "every node is either removed or in the networkx graph; default options + "
    "every machine used + complete => every node removed. distinct = (builder, "
    "options, instance, history); non-trivial = some state had a scheduled but "
    "uncompleted operation"
)
ANCHORS = [
    "job_shop_lib.graphs.graph_updaters._residual_graph_updater:ResidualGraphUpdater.update",
    "job_shop_lib.graphs.graph_updaters._residual_graph_updater:ResidualGraphUpdater._remove_completed_machine_nodes",
    "job_shop_lib.graphs.graph_updaters._residual_graph_updater:ResidualGraphUpdater._remove_completed_job_nodes",
    "job_shop_lib.graphs.graph_updaters._utils:remove_completed_operations",
    "job_shop_lib.graphs._job_shop_graph:JobShopGraph.remove_node",
    "job_shop_lib.dispatching.feature_observers._is_completed_observer:IsCompletedObserver.update",
]
ASSUMPTIONS = ["positive durations (property scope); later episodes are C12's business"]
REQUIRED_COUNTERS = {"abandoned_episodes": 50, "states_checked": 1500, "final_all_removed_checks": 50,
                     "builder_disjunctive": 50, "builder_agent_task": 50,
                     "builder_with_jobs": 50, "builder_complete": 50, "builder_custom": 50}
WORKERS = {"quick": 1, "thorough": 14}


def gen_cases(ctx):
    rng = ctx.rng
    names = ["disjunctive", "agent_task", "with_jobs", "complete", "custom"]
    for i in range(ctx.scale(40, 6000)):
        # the updater as met inside the multi-instance environment: default configuration, after
        # another environment with another kind of graph was created in the same process;
        # a generator that hands out the same instance objects again and again
        yield {"kind": "multi_env", "seed": rng.randrange(2**31), "instance": {"cls": "generated"},
               "filter": None, "policy": "random_available",
               "first_builder": rng.choice(["disjunctive", "agent_task"]),
               "builder": rng.choice(["agent_task", "with_jobs", "complete"]),
               "cycling_generator": i % 2 == 1}
    for i in range(ctx.scale(2, 56)):
        # more than 256 operations in one job / on one machine (counters must not wrap around)
        n = rng.choice([257, 260, 300, 513 if ctx.tier == "thorough" else 258])
        long_job = [rng.randint(1, 3) for _ in range(n)]
        inst = {"cls": "long", "durations": [long_job, [2, 1]],
                "machines": [[[0] if k % 3 else [1] for k in range(n)], [[1], [0]]]}
        yield {"instance": inst, "filter": None, "policy": rng.choice(["random_ready", "one_job_first"]),
               "seed": rng.randrange(2**31), "kind": "history", "builder": ["with_jobs", "agent_task"][i % 2],
               "rm_machines": True, "rm_jobs": True, "initial_reset": False, "abandon_after": None,
               "attach_after": 0}
    for i in range(ctx.scale(5000, 720000)):
        c = gen_history_case(rng, classes=gen.POSITIVE_CLASSES, max_jobs=rng.choice([2, 3, 4, 5]),
                             max_machines=rng.choice([2, 3, 4]), filters=False)
        c["filter"] = rng.choice([None, {"names": ["dominated_operations"], "form": "function"},
                                  {"names": [rng.choice(gen.CUSTOM_FILTERS)], "form": "custom"}])
        c["builder"] = names[i % 5]
        if c["builder"] == "custom":
            c["instance"] = gen.gen_instance(rng, rng.choice(["gap", "gap", "classic", "flexible", "recirc"]),
                                             max_jobs=rng.choice([2, 3, 4]), max_machines=rng.choice([3, 4, 5]))
        c["rm_machines"] = rng.random() < 0.75
        c["rm_jobs"] = rng.random() < 0.75
        c["initial_reset"] = rng.random() < 0.3
        c["abandon_after"] = rng.choice([None, None, 1, 2, 3, rng.randint(1, 8)])
        # the graph and its updater may also be created when some operations are already
        # dispatched (judged from the next dispatch on)
        c["attach_after"] = rng.choice([0, 0, 0, 1, 2, rng.randint(1, 8)])
        yield c


def custom_graph(instance, rng):
    """A user-written agent-task style graph built with the public API only: job nodes first,
    machine nodes in reverse order and only for machines that have operations."""
    from job_shop_lib.graphs import JobShopGraph, Node, NodeType
    from job_shop_lib.graphs import (add_operation_machine_edges, add_machine_machine_edges,
                                     add_operation_job_edges)
    g = JobShopGraph(instance)
    job_ids = list(range(instance.num_jobs))
    rng.shuffle(job_ids)
    for j in job_ids:
        g.add_node(Node(node_type=NodeType.JOB, job_id=j))
    if rng.random() < 0.35:
        # a graph with job nodes and a global node but no machine nodes at all
        from job_shop_lib.graphs import add_global_node, add_job_global_edges
        add_operation_job_edges(g)
        add_global_node(g)
        add_job_global_edges(g)
        return g
    used = [m for m in range(instance.num_machines) if instance.operations_by_machine[m]]
    for m in reversed(used):
        g.add_node(Node(node_type=NodeType.MACHINE, machine_id=m))
    add_operation_machine_edges(g)
    add_machine_machine_edges(g)
    add_operation_job_edges(g)
    jobs = g.nodes_by_type[NodeType.JOB]
    for a in jobs:
        for b in jobs:
            if a is not b:
                g.add_edge(a, b)
    return g


def judge_state(ctx, g, r, now, w, prev_removed):
    """The C17 clauses on one state (graph g, reference r, clock `now`); returns the removed set."""
    N = r.num_ops
    completed = set(r.completed(now))
    scheduled = set(r.scheduled())
    removed = {i for i, x in enumerate(g.removed_nodes) if x}
    removed_ops = {i for i in removed if i < N}
    ctx.count("states_checked")
    w = dict(w, history=list(r.history), removed=sorted(removed))
    if not completed <= removed_ops:
        ctx.violation("c17_completed_operation_not_removed", dict(w, missing=sorted(completed - removed_ops)))
    if not removed_ops <= scheduled:
        ctx.violation("c17_unscheduled_operation_removed", dict(w, wrong=sorted(removed_ops - scheduled)))
    for node in g.nodes:
        t = node.node_type.name
        if node.node_id in removed and t == "MACHINE":
            if any(x not in scheduled for x in range(N) if node.machine_id in r.op_machines[x]):
                ctx.violation("c17_machine_node_removed_too_early", dict(w, machine=node.machine_id))
        if node.node_id in removed and t == "JOB":
            if any(x not in scheduled for x in r.job_ops[node.job_id]):
                ctx.violation("c17_job_node_removed_too_early", dict(w, job=node.job_id))
    if not prev_removed <= removed:
        ctx.violation("c17_node_unremoved", dict(w, back=sorted(prev_removed - removed)))
    present = set(g.graph.nodes())
    if present & removed or (present | removed) != set(range(len(g.nodes))):
        ctx.violation("c17_removed_mask_disagrees_with_graph", dict(w, present=sorted(present)))
    if any(u in removed or v in removed for u, v in g.graph.edges()):
        ctx.violation("c17_edge_touches_removed_node", w)
    return removed


def run_multi_env(ctx, case):
    from job_shop_lib.dispatching import DispatcherObserverConfig
    from job_shop_lib.generation import GeneralInstanceGenerator, InstanceGenerator
    from job_shop_lib.reinforcement_learning import MultiJobShopGraphEnv
    from ..ref import Ref
    from .c16 import builders
    rng = random.Random(case["seed"])
    feats = [DispatcherObserverConfig("is_ready")]

    def gen_(seed):
        return GeneralInstanceGenerator(num_jobs=(2, 3), num_machines=(2, 3), duration_range=(1, 6),
                                        seed=seed)
    # an earlier environment of another kind in the same process
    env0 = MultiJobShopGraphEnv(gen_(case["seed"] % 1000), feats,
                                graph_initializer=builders()[case["first_builder"]])
    env0.reset()
    if case["cycling_generator"]:
        source = gen_(case["seed"] % 977 + 1)
        pool = [source.generate(num_jobs=3, num_machines=3) for _ in range(2)]

        class Cycling(InstanceGenerator):
            """hands out the instances of a fixed data set, again and again (the same objects)"""
            def __init__(self):
                super().__init__(num_jobs=(3, 3), num_machines=(3, 3), duration_range=(1, 6))
                self.k = 0

            def generate(self, num_jobs=None, num_machines=None):
                self.k += 1
                return pool[self.k % len(pool)]
        g = Cycling()
        ctx.count("multi_envs_on_a_cycling_generator")
    else:
        g = gen_(case["seed"] % 991 + 2)
    env = MultiJobShopGraphEnv(g, feats, graph_initializer=builders()[case["builder"]],
                               ready_operations_filter=None)
    w0 = {"env": "multi", "builder": case["builder"], "first_builder": case["first_builder"],
          "cycling_generator": case["cycling_generator"]}
    for ep in range(4):
        env.reset()
        I = env.dispatcher.instance
        r = Ref({"durations": [[op.duration for op in job] for job in I.jobs],
                 "machines": [[list(op.machines) for op in job] for job in I.jobs]})
        if any(env.job_shop_graph.removed_nodes):
            ctx.violation("c17_nodes_removed_right_after_reset", dict(w0, episode=ep))
            return
        prev = set()
        done = False
        while not done:
            op = rng.choice(env.dispatcher.available_operations()); m = rng.choice(op.machines)
            _, _, done, _, _ = env.step((op.job_id, m))
            r.apply(op.operation_id, m)
            prev = judge_state(ctx, env.job_shop_graph, r, r.current_time(None), dict(w0, episode=ep), prev)
        ctx.count("final_all_removed_checks")
        gph = env.job_shop_graph
        if all(any(mm in ms for ms in r.op_machines) for mm in range(r.num_machines)) and (
                not all(gph.removed_nodes) or gph.graph.number_of_nodes() != 0):
            ctx.violation("c17_nodes_left_at_completion",
                          dict(w0, episode=ep, left=[repr(n) for n in gph.non_removed_nodes()]))
            return
    ctx.count("multi_env_runs")
    ctx.note_case(case, True, fingerprint="multi:%s" % case["seed"])


def run_case(ctx, case):
    if case.get("kind") == "multi_env":
        return run_multi_env(ctx, case)
    from job_shop_lib.graphs.graph_updaters import ResidualGraphUpdater
    from .c16 import builders

    rng = random.Random(case["seed"])
    run = Run(case["instance"], case.get("filter"))
    d, r = run.d, run.r
    late = min(case.get("attach_after", 0), r.num_ops - 1)
    for _ in range(late):
        o, m = run.choose(rng, rng.choice(gen.POLICIES))
        run.dispatch(o, m)
    if late:
        ctx.count("updater_attached_mid_episode")
    if case["builder"] == "custom":
        g0 = custom_graph(run.instance, random.Random(case["seed"] + 5))
    else:
        g0 = builders()[case["builder"]](run.instance)
    kwargs = {}
    default = case["rm_machines"] and case["rm_jobs"]
    if not default or rng.random() < 0.5:
        kwargs = {"remove_completed_machine_nodes": case["rm_machines"],
                  "remove_completed_job_nodes": case["rm_jobs"]}
    if case["seed"] % 5 == 1:
        # observers that only track some feature types already exist when the updater is built
        from job_shop_lib.dispatching.feature_observers import (FeatureType, IsCompletedObserver,
                                                               RemainingOperationsObserver)
        which = rng.choice(["completed_jobs", "completed_machines", "remaining_jobs",
                            "remaining_machines", "completed_ops"])
        ft = {"completed_jobs": FeatureType.JOBS, "completed_machines": FeatureType.MACHINES,
              "remaining_jobs": FeatureType.JOBS, "remaining_machines": FeatureType.MACHINES,
              "completed_ops": FeatureType.OPERATIONS}[which]
        (IsCompletedObserver if which.startswith("completed") else RemainingOperationsObserver)(
            d, feature_types=[ft])
        ctx.count("partial_observers_present_before_updater")
    if case["seed"] % 7 == 3:
        # two user observers subscribed before the updater: the second one unsubscribes the first
        # from inside one of its updates (every other subscriber still gets that dispatch)
        from job_shop_lib.dispatching import DispatcherObserver

        class Plain(DispatcherObserver):
            _is_singleton = False
            def update(self, scheduled_operation): pass
            def reset(self): pass

        class Evictor(DispatcherObserver):
            _is_singleton = False
            def __init__(self, dispatcher, victim, at):
                super().__init__(dispatcher)
                self.victim, self.at, self.n = victim, at, 0
            def update(self, scheduled_operation):
                self.n += 1
                if self.n == self.at and self.victim in self.dispatcher.subscribers:
                    self.dispatcher.unsubscribe(self.victim)
            def reset(self): pass
        Evictor(d, Plain(d), rng.randint(1, 3))
        ctx.count("observer_evicting_an_earlier_one_before_the_updater")
    if case["seed"] % 7 == 5 and (case["rm_machines"] or case["rm_jobs"]):
        # an earlier updater (and its completion observer) was attached and detached again
        # without any dispatch in between
        from .c16 import builders as _b
        old_upd = ResidualGraphUpdater(d, _b()["disjunctive"](run.instance), **kwargs)
        d.unsubscribe(old_upd)
        d.unsubscribe(old_upd.is_completed_observer)
        ctx.count("earlier_updater_detached_before_this_one")
    if case["seed"] % 6 == 0:
        # documented alternative: build unsubscribed, attach by hand
        upd = ResidualGraphUpdater(d, g0, subscribe=False, **kwargs)
        d.subscribe(upd)
        ctx.count("updater_subscribed_by_hand")
    else:
        upd = ResidualGraphUpdater(d, g0, **kwargs)
    if case["seed"] % 13 == 6 and case["builder"] != "custom":
        # the dispatcher first serves (part of) an episode with this updater; then the updater is
        # unsubscribed, the dispatcher reset, and the name re-bound to a new updater on a fresh
        # graph - the old object is freed only after the new one exists
        import gc
        for _ in range(rng.randint(1, r.num_ops)):
            if run.done():
                break
            o9, m9 = run.choose(rng, "random_ready"); run.dispatch(o9, m9)
        d.unsubscribe(upd)
        d.reset(); r.reset()
        upd = ResidualGraphUpdater(d, builders()[case["builder"]](run.instance), **kwargs)
        gc.collect()
        ctx.count("updaters_attached_after_an_earlier_one_was_dropped")
    twin_completed = None
    if case["seed"] % 11 == 3:
        # the user's own completion observer with the feature types of the updater's helper, created
        # after the updater and dropped again a few dispatches later
        from job_shop_lib.dispatching.feature_observers import IsCompletedObserver
        try:
            twin_completed = IsCompletedObserver(
                d, feature_types=list(upd.is_completed_observer.features))
            ctx.count("second_completion_observer_created_after_the_updater")
        except Exception:
            twin_completed = None
    if case["seed"] % 11 == 7:
        # a composite over all subscribed feature observers (the updater's helper among them) is
        # created after the updater
        from job_shop_lib.dispatching.feature_observers import CompositeFeatureObserver
        CompositeFeatureObserver(d)
        ctx.count("composite_created_after_the_updater")
    fork_at = rng.randint(0, max(0, r.num_ops - 2)) if case["seed"] % 10 == 8 and twin_completed is None else None
    if case["initial_reset"]:
        d.reset(); r.reset()
    ctx.count("builder_" + case["builder"])
    N = r.num_ops
    prev_removed = set()
    nontrivial = False
    w0 = {"builder": case["builder"], "options": [case["rm_machines"], case["rm_jobs"]],
          "filter": run.filter_names}
    abandon = case.get("abandon_after")
    sib = None
    if case["seed"] % 8 == 6 and case["builder"] != "custom":
        # a second dispatcher + graph + updater for the same instance object, on its own history
        sib = Run(case["instance"], case.get("filter"), instance=run.instance)
        ResidualGraphUpdater(sib.d, builders()[case["builder"]](run.instance), **kwargs)
        ctx.count("histories_with_a_sibling_updater")
    while not run.done():
        if sib is not None:
            if sib.done():
                sib.d.reset(); sib.r.reset()
            o9, m9 = sib.choose(rng, rng.choice(gen.POLICIES))
            sib.dispatch(o9, m9)
        if abandon is not None and len(r.history) >= abandon:
            # abandon the episode (possibly with operations in progress) and start over
            abandon = None
            d.reset(); r.reset(); prev_removed = set()
            ctx.count("abandoned_episodes")
            if any(upd.job_shop_graph.removed_nodes):
                ctx.violation("c17_nodes_removed_right_after_reset", dict(w0))
            continue
        if twin_completed is not None and len(r.history) >= 2:
            d.unsubscribe(twin_completed)
            twin_completed = None
            ctx.count("second_completion_observer_unsubscribed_mid_episode")
        if fork_at is not None and len(r.history) >= fork_at and abandon is None:
            # the history goes on on a deep copy of the dispatcher (with its updater and graph)
            import copy
            fork_at = None
            d = copy.deepcopy(d)
            run.d, run.instance = d, d.instance
            run.ops = [op for job in d.instance.jobs for op in job]
            upds = [x for x in d.subscribers if isinstance(x, ResidualGraphUpdater)]
            if len(upds) != 1:
                ctx.violation("c17_deep_copy_lost_the_updater", dict(w0, updaters=len(upds)))
                return
            upd = upds[0]
            ctx.count("histories_continued_on_a_deep_copy_of_the_dispatcher")
        pol = case["policy"]
        o, m = run.choose(rng, pol if pol != "mixed" else rng.choice(gen.POLICIES))
        run.dispatch(o, m)
        g = upd.job_shop_graph
        if case["seed"] % 9 == 4:
            # a user of the live residual graph tries to connect a node that is already gone: the
            # graph refuses (or ignores it) - a removed node does not come back through an edge
            gone = [i for i, x in enumerate(g.removed_nodes) if x]
            here = [i for i, x in enumerate(g.removed_nodes) if not x]
            if gone and here:
                try:
                    g.add_edge(rng.choice(gone), rng.choice(here))
                except Exception:
                    pass
                ctx.count("edges_to_removed_nodes_attempted")
        # the dispatcher's clock: with a user-written filter it is the minimum start over the
        # operations that filter lets through (reference model mirrors the filter)
        now = r.current_time(run.filter_names if run.filter_names and
                             run.filter_names[0].startswith("custom_") else None)
        completed = set(r.completed(now))
        scheduled = set(r.scheduled())
        if scheduled - completed:
            nontrivial = True
        removed = {i for i, x in enumerate(g.removed_nodes) if x}
        removed_ops = {i for i in removed if i < N}
        ctx.count("states_checked")
        w = dict(w0, history=list(r.history), removed=sorted(removed))
        if not completed <= removed_ops:
            ctx.violation("c17_completed_operation_not_removed",
                          dict(w, missing=sorted(completed - removed_ops)))
        if not removed_ops <= scheduled:
            ctx.violation("c17_unscheduled_operation_removed",
                          dict(w, wrong=sorted(removed_ops - scheduled)))
        for node in g.nodes:
            t = node.node_type.name
            if node.node_id in removed and t == "MACHINE":
                ops_m = [x for x in range(N) if node.machine_id in r.op_machines[x]]
                if any(x not in scheduled for x in ops_m):
                    ctx.violation("c17_machine_node_removed_too_early",
                                  dict(w, machine=node.machine_id))
            if node.node_id in removed and t == "JOB":
                if any(x not in scheduled for x in r.job_ops[node.job_id]):
                    ctx.violation("c17_job_node_removed_too_early", dict(w, job=node.job_id))
        if not prev_removed <= removed:
            ctx.violation("c17_node_unremoved", dict(w, back=sorted(prev_removed - removed)))
        present = set(g.graph.nodes())
        if present & removed or (present | removed) != set(range(len(g.nodes))):
            ctx.violation("c17_removed_mask_disagrees_with_graph",
                          dict(w, present=sorted(present)))
        if any(u in removed or v in removed for u, v in g.graph.edges()):
            ctx.violation("c17_edge_touches_removed_node", w)
        if len(g.removed_nodes) != len(g.nodes):
            ctx.violation("c17_removed_mask_length", w)
        prev_removed = removed
    every_machine_used = all(
        any(mm in ms for ms in r.op_machines) for mm in range(r.num_machines))
    if default and every_machine_used:
        ctx.count("final_all_removed_checks")
        g = upd.job_shop_graph
        if not all(g.removed_nodes) or g.graph.number_of_nodes() != 0:
            ctx.violation("c17_nodes_left_at_completion",
                          dict(w0, history=list(r.history),
                               left=[repr(n) for n in g.non_removed_nodes()]))
    ctx.note_case(case, nontrivial, fingerprint=str(hash(
        (case["builder"], case["rm_machines"], case["rm_jobs"], str(case["filter"]),
         gen.fingerprint(case["instance"]), tuple(r.history)))))
    ctx.count("class_" + case["instance"]["cls"])
