"""C07 - ready-operation filters prune soundly and never deadlock."""

from __future__ import annotations

import random

from .. import gen

gen.WIDE_RATE = 0.01   # wide (~100 operation) instances are costly here: a small share
from ..drive import Run, gen_history_case

ID = "C07"
LEVEL = "exploration"
RULE = (
    "at every state of seeded histories (all classes, flexible and zero durations "
    "included) each built-in filter, obtained by function / string / enum / factory, "
    "and random compositions are applied to L = the full ready list, random "
    "order-preserving sub-lists and singletons; the result must be a non-empty "
    "order-preserving duplicate-free sub-list of L made of the same objects, equal "
    "to the documented criterion recomputed by the reference model (dominated "
    "filter on a list containing a zero-duration operation: criterion set or a "
    "single zero-duration operation of L), compositions equal left-to-right "
    "application, L and the dispatcher are not mutated, available_operations() == "
    "filter(raw ready list); histories that only pick available operations must "
    "complete. distinct = (instance, history); non-trivial = some filter removed "
    "something in the history"
)
ANCHORS = [
    "job_shop_lib.dispatching._ready_operation_filters:filter_dominated_operations",
    "job_shop_lib.dispatching._ready_operation_filters:filter_non_idle_machines",
    "job_shop_lib.dispatching._ready_operation_filters:filter_non_immediate_machines",
    "job_shop_lib.dispatching._ready_operation_filters:filter_non_immediate_operations",
    "job_shop_lib.dispatching._ready_operation_filters:_get_min_machine_end_times",
    "job_shop_lib.dispatching._ready_operation_filters:_get_immediate_machines",
    "job_shop_lib.dispatching._ready_operation_filters:_get_non_idle_machines",
    "job_shop_lib.dispatching._factories:create_composite_operation_filter",
    "job_shop_lib.dispatching._factories:ready_operations_filter_factory",
    "job_shop_lib.dispatching._dispatcher:Dispatcher.available_operations",
]
ASSUMPTIONS = [
    "criteria are re-implemented from the docstrings / property wording in jsverif/ref.py",
    "dominated filter on lists with zero durations: only the generic obligations and "
    "'criterion set or zero-duration operation(s) only' are required",
]
REQUIRED_COUNTERS = {"filter_applications_checked": 3000, "composite_checks": 300,
                     "pruned_something": 100, "available_ops_checks": 300,
                     "zero_duration_lists": 20}
WORKERS = {"quick": 1, "thorough": 14}


def gen_cases(ctx):
    rng = ctx.rng
    from . import _env_workload as E
    for i in range(ctx.scale(80, 12000)):
        # the filters as met inside the environments: what the env reports as available is the
        # filter's answer (same operations, same order)
        c = E.gen_multi_case(rng)
        if i % 3 == 0:
            c["kind"] = "single_env_filter"
            c["instance"] = gen.gen_instance(rng, rng.choice(["irregular", "classic", "recirc"]),
                                             max_jobs=rng.choice([9, 10, 12]), max_machines=rng.choice([2, 3]))
        yield c
    for i in range(ctx.scale(4, 200)):
        # many jobs (more than 10 operations available at once); the library's own partial Gantt
        # plotter is handed the dispatcher's available list in every state, as the GIF / video
        # support does - the list must come back unchanged
        nj = rng.randint(12, 14)
        inst = {"cls": "many_jobs", "durations": [[rng.randint(1, 4) for _ in range(rng.randint(1, 2))] for _ in range(nj)],
                "machines": None}
        inst["machines"] = [[[rng.randrange(3)] for _ in job] for job in inst["durations"]]
        yield {"kind": "history", "instance": inst, "filter": rng.choice([None, {"names": ["non_idle_machines"], "form": "function"}]),
               "policy": "random_available", "seed": rng.randrange(2**31), "episodes": 1, "observers": False,
               "fork_at": None, "plotter": True}
    for i in range(ctx.scale(3000, 720000)):
        c = gen_history_case(rng, max_jobs=rng.choice([2, 3, 4, 5, 6]),
                             max_machines=rng.choice([2, 3, 4, 5]))
        c["kind"] = "history"
        # further episodes on the same dispatcher, built-in observers attached (clients of
        # available_operations() during dispatch and reset)
        c["episodes"] = rng.choice([1, 1, 1, 2, 3])
        c["observers"] = rng.random() < 0.3
        # a copy of the dispatcher (copy.deepcopy) is made mid-history and advanced on its own;
        # the filters applied to the original must not notice
        c["fork_at"] = rng.choice([None] * 5 + [1, 2, rng.randint(1, 8)])
        if c.get("filter") and i % 9 == 4:
            # the installed filter is wrapped by user code that fails once in a while; the caller
            # catches the error and asks again
            c["filter"] = dict(c["filter"], flaky=True)
        yield c


def snapshot(d):
    return (
        [[(id(so), so.start_time, so.machine_id) for so in lst] for lst in d.schedule.schedule],
        list(d.machine_next_available_time), list(d.job_next_available_time),
        list(d.job_next_operation_index), list(map(id, d.subscribers)),
    )


def generic_obligations(L, out):
    """sub-list, same order, same objects, no duplicates, non-empty."""
    errs = []
    if not out:
        errs.append("empty result for non-empty input")
    pos = {id(o): i for i, o in enumerate(L)}
    idx = []
    for o in out:
        if id(o) not in pos:
            errs.append(f"foreign operation {getattr(o, 'operation_id', o)}")
        else:
            idx.append(pos[id(o)])
    if len(set(idx)) != len(idx):
        errs.append("duplicates")
    if idx != sorted(idx):
        errs.append("order changed")
    return errs


def check_filter(ctx, run, names, spec_form, L_ids, pruned_flag):
    d, r = run.d, run.r
    f = gen.make_filter({"names": names, "form": spec_form})
    L = [run.op(i) for i in L_ids]
    L_before = list(L)
    snap = snapshot(d)
    out = f(d, L)
    ctx.count("filter_applications_checked")
    if len(names) > 1:
        ctx.count("composite_checks")
    w = {"filter": names, "form": spec_form, "input": L_ids,
         "output": [getattr(o, "operation_id", repr(o)) for o in out],
         "history": list(r.history)}
    if L != L_before or any(a is not b for a, b in zip(L, L_before)):
        ctx.violation("c07_input_list_mutated", w)
    if snapshot(d) != snap:
        ctx.violation("c07_dispatcher_state_mutated", w)
    errs = generic_obligations(L, out)
    if errs:
        w["errors"] = errs
        ctx.violation("c07_not_a_sound_sublist", w)
        return
    out_ids = [o.operation_id for o in out]
    if len(out_ids) < len(L_ids):
        pruned_flag[0] = True
        ctx.count("pruned_something")
    # exact criterion, applied left to right
    cur = list(L_ids)
    exact = True
    for n in names:
        if n == "dominated_operations" and any(r.op_dur[o] == 0 for o in cur):
            exact = False
            break
        cur = getattr(r, "f_" + n)(cur)
    if exact:
        if out_ids != cur:
            w["want"] = cur
            ctx.violation("c07_differs_from_documented_criterion", w)
    else:
        ctx.count("zero_duration_lists")
        if len(names) == 1:
            crit = r.dominated_criterion(L_ids)
            # documented shortcut: zero-duration operations can be processed at once, so the filter
            # may answer with zero-duration operation(s) only (one, as the pinned code does, or all)
            ok = out_ids == crit or (out_ids and all(r.op_dur[o] == 0 for o in out_ids))
            if not ok:
                w["want"] = {"criterion": crit, "or": "zero-duration operation(s) only"}
                ctx.violation("c07_dominated_zero_duration_result", w)


def judge_env_state(ctx, run, info, w):
    d, r = run.d, run.r
    avail = d.available_operations()
    ctx.count("available_ops_checks")
    raw = d.raw_ready_operations()
    errs = generic_obligations(raw, avail) if raw else []
    if errs:
        ctx.violation("c07_available_not_sound", dict(w, errors=errs, history=list(r.history)))
    want = run.ref_available()
    if want is not None and [o.operation_id for o in avail] != want:
        ctx.violation("c07_available_differs_from_filter_of_ready",
                      dict(w, got=[o.operation_id for o in avail], want=want, history=list(r.history)))
    if info is not None:
        ctx.count("env_info_available_operations_checked")
        got = [o.operation_id for o in info["available_operations"]]
        # (the same operations; the order in which the env lists them is not stated anywhere)
        if sorted(got) != sorted(o.operation_id for o in avail):
            ctx.violation("c07_env_reports_other_available_operations_than_the_filter_returned",
                          dict(w, reported=got, filter_returned=[o.operation_id for o in avail],
                               history=list(r.history)))


def run_env_case(ctx, case):
    from . import _env_workload as E
    if case["kind"] == "multi_env_filter":
        for event, run, info in E.multi_env_episodes(ctx, case):
            if event == "filter_changed":
                continue    # the list cached for this state may still be the old filter's answer
            judge_env_state(ctx, run, info, {"env": "multi", "filter": run.filter_names,
                                             "constructor_filter": case["constructor_filter"],
                                             "setter": case.get("setter")})
        ctx.note_case(case, True, fingerprint="multi:%s:%s:%s" % (case["seed"], case["constructor_filter"],
                                                                  case.get("setter")))
        return
    # single-instance environment on an instance with many jobs
    from job_shop_lib.dispatching import DispatcherObserverConfig
    from job_shop_lib.graphs import build_agent_task_graph
    from job_shop_lib.reinforcement_learning import SingleJobShopGraphEnv
    rng = random.Random(case["seed"])
    instance = gen.build(case["instance"])
    name = case["constructor_filter"]
    spec = E._spec(name)
    kw = {} if name == "default" else {"ready_operations_filter": gen.make_filter(spec)}
    env = SingleJobShopGraphEnv(build_agent_task_graph(instance), [DispatcherObserverConfig("is_ready")], **kw)
    for ep in range(2):
        env.reset()
        run = Run(case["instance"], spec, dispatcher=env.dispatcher, instance=instance)
        done = False
        while not done:
            avail = env.dispatcher.available_operations()
            op = rng.choice(avail)
            m = rng.choice(op.machines)
            _, _, done, _, info = env.step((op.job_id, m))
            run.r.apply(op.operation_id, m)
            ctx.count("single_env_steps")
            judge_env_state(ctx, run, info, {"env": "single", "filter": run.filter_names})
    ctx.note_case(case, True, fingerprint="single-env:%s" % case["seed"])


def run_case(ctx, case):
    if case.get("kind") in ("multi_env_filter", "single_env_filter"):
        return run_env_case(ctx, case)
    rng = random.Random(case["seed"])
    run = Run(case["instance"], case.get("filter"))
    d, r = run.d, run.r
    pruned = [False]
    forms = ["function", "string", "enum", "factory", "composite"]
    if case.get("observers"):
        from . import _snap
        _snap.full_observer_set(d)
        ctx.count("histories_with_observers_attached")
    episodes_left = case.get("episodes", 1) - 1
    fork_at = case.get("fork_at")
    while not run.done() or episodes_left > 0:
        if fork_at is not None and len(r.history) == fork_at:
            import copy
            fork_at = None
            d2 = copy.deepcopy(d)
            twin = Run(case["instance"], case.get("filter"), dispatcher=d2, instance=d2.instance)
            twin.r = r.clone()
            for _ in range(rng.randint(1, 4)):
                if twin.done():
                    break
                o2, m2 = twin.choose(rng, "random_ready")
                twin.dispatch(o2, m2)
            ctx.count("forks")
            # the copy's filters see the copy's state
            if not twin.done():
                for n in gen.FILTER_NAMES:
                    check_filter(ctx, twin, [n], rng.choice(forms), twin.r.ready(), pruned)
        if run.done():
            episodes_left -= 1
            d.reset(); r.reset()
            ctx.count("episodes_after_reset")
            continue
        ready = r.ready()
        ctx.count("states")
        lists = [ready]
        if len(ready) > 1:
            k = rng.randint(1, len(ready) - 1)
            lists.append(sorted(rng.sample(ready, k), key=ready.index))
            lists.append([rng.choice(ready)])
        for L in lists:
            for n in gen.FILTER_NAMES:
                check_filter(ctx, run, [n], rng.choice(forms), L, pruned)
            comp = [rng.choice(gen.FILTER_NAMES) for _ in range(rng.randint(2, 4))]
            check_filter(ctx, run, comp, rng.choice(["string", "enum", "function", "composite"]), L, pruned)
        check_filter(ctx, run, ["dominated_operations", "non_idle_machines"], "enum", ready, pruned)
        if case.get("plotter"):
            import matplotlib.pyplot as plt
            from job_shop_lib.visualization import get_partial_gantt_chart_plotter
            fig = get_partial_gantt_chart_plotter(show_available_operations=True)(
                d.schedule, None, d.available_operations(), d.current_time())
            plt.close(fig)
            ctx.count("states_shown_to_the_partial_gantt_plotter")
        # available_operations() applies the installed filter to the raw ready list
        if rng.random() < 0.4 and gen.fail_once(d, rng.choice([d.available_operations, d.current_time])):
            ctx.count("available_list_asked_again_after_a_filter_failure")
        avail = d.available_operations()
        ctx.count("available_ops_checks")
        raw = d.raw_ready_operations()
        errs = generic_obligations(raw, avail)
        if [o.operation_id for o in raw] != ready:
            ctx.violation("c07_raw_ready_list", {"got": [o.operation_id for o in raw], "want": ready})
        if errs:
            ctx.violation("c07_available_not_sound",
                          {"errors": errs, "history": list(r.history), "filter": run.filter_names})
        want = run.ref_available()
        if want is not None and [o.operation_id for o in avail] != want:
            ctx.violation("c07_available_differs_from_filter_of_ready",
                          {"got": [o.operation_id for o in avail], "want": want,
                           "history": list(r.history), "filter": run.filter_names})
        if not avail:
            ctx.violation("c07_deadlock_no_available_operation",
                          {"history": list(r.history), "filter": run.filter_names})
            return
        # never deadlock: always continue with an *available* operation
        o = rng.choice(avail)
        run.dispatch(o.operation_id, rng.choice(o.machines))
    fp = hash((gen.fingerprint(case["instance"]), str(case.get("filter")), tuple(r.history)))
    ctx.note_case(case, pruned[0], fingerprint=str(fp))
    ctx.count("class_" + case["instance"]["cls"])
    ctx.count("histories_completed_via_available_only")
