"""C13 - dense rewards add up to the sparse objective."""

from __future__ import annotations

import random

from .. import gen
from ..drive import Run, gen_history_case
from ..ref import Ref

ID = "C13"
LEVEL = "exploration"
RULE = (
    "seeded histories on all instance classes (flexible machine choices, zero "
    "durations, dispatches that do not extend the makespan), with MakespanReward "
    "and IdleTimeReward subscribed from the start, stand-alone and through both "
    "environments, and again after resets: at EVERY prefix len(rewards) == k, every "
    "reward <= 0, sum(makespan rewards) == -reference makespan, sum(idle rewards) "
    "== -reference idle time, env.step reward == the reward appended for that "
    "step. distinct = (instance, history, mode); non-trivial = some dispatch did "
    "not extend the makespan and some dispatch created idle time"
)
ANCHORS = [
    "job_shop_lib.reinforcement_learning._reward_observers:MakespanReward.update",
    "job_shop_lib.reinforcement_learning._reward_observers:IdleTimeReward.update",
    "job_shop_lib.reinforcement_learning._reward_observers:RewardObserver.last_reward",
    "job_shop_lib.reinforcement_learning._reward_observers:MakespanReward.reset",
    "job_shop_lib.reinforcement_learning._single_job_shop_graph_env:SingleJobShopGraphEnv.step",
]
ASSUMPTIONS = ["idle time = sum over machines of the gaps before each operation up to the last one"]
REQUIRED_COUNTERS = {"attached_mid_history_then_reset": 20, "factory_reget_after_unsubscribe": 20, "prefix_checks": 2000, "env_step_reward_checks": 200,
                     "after_reset_histories": 20, "multi_env_steps": 30}
WORKERS = {"quick": 1, "thorough": 14}


def gen_cases(ctx):
    rng = ctx.rng
    for i in range(ctx.scale(6000, 900000)):
        c = gen_history_case(rng, max_jobs=rng.choice([2, 3, 4, 5, 6]), max_machines=rng.choice([2, 3, 4, 5]))
        c["kind"] = ["standalone", "standalone_factory", "env", "standalone_reset",
                     "standalone_midhistory"][i % 5]
        c["reward"] = rng.choice(["makespan", "idle"])
        yield c
    for i in range(ctx.scale(2, 56)):
        # more than 256 operations in one job, more than 100 on one machine
        yield {"kind": "standalone", "reward": "makespan", "instance": gen.long_instance(rng),
               "filter": None, "policy": "random_ready", "seed": rng.randrange(2**31) * 9 + 1}
    for i in range(ctx.scale(60, 9000)):
        yield {"kind": "multi_env", "seed": rng.randrange(2**31),
               "reward": rng.choice(["makespan", "idle"]),
               "recirc": rng.random() < 0.0, "instance": {"cls": "generated"}}


def make_quitter(d, rng):
    """An observer subscribed right before the reward observers that unsubscribes itself
    from inside its n-th update (the reward observers must still get that dispatch)."""
    from job_shop_lib.dispatching import DispatcherObserver

    class Quitter(DispatcherObserver):
        _is_singleton = False

        def __init__(self, dispatcher, after):
            super().__init__(dispatcher)
            self.after = after
            self.n = 0

        def update(self, scheduled_operation):
            self.n += 1
            if self.n == self.after and self in self.dispatcher.subscribers:
                self.dispatcher.unsubscribe(self)

        def reset(self):
            pass
    return Quitter(d, rng.randint(1, 3))


def make_raiser(d, rng):
    """An observer subscribed AFTER the reward observers whose n-th update raises once; the
    caller catches the error and carries on."""
    from job_shop_lib.dispatching import DispatcherObserver

    class Raiser(DispatcherObserver):
        _is_singleton = False

        def __init__(self, dispatcher, at):
            super().__init__(dispatcher)
            self.at = at
            self.n = 0

        def update(self, scheduled_operation):
            self.n += 1
            if self.n == self.at:
                raise RuntimeError("observer failure injected by the harness")

        def reset(self):
            pass
    return Raiser(d, rng.randint(1, 4))


def check_prefix(ctx, r: Ref, mk, idle, k, where, extra=None):
    ctx.count("prefix_checks")
    w = {"where": where, "k": k, "history": list(r.history)}
    if extra:
        w.update(extra)
    for name, ob, want in (("makespan", mk, -r.makespan()), ("idle", idle, -r.idle_time())):
        if ob is None:
            continue
        rew = list(ob.rewards)
        if len(rew) != k:
            ctx.violation("c13_reward_count", dict(w, reward=name, got=len(rew)))
        elif any(x > 0 for x in rew):
            ctx.violation("c13_positive_reward", dict(w, reward=name, rewards=rew))
        elif sum(rew) != want:
            ctx.violation("c13_sum_differs_from_objective",
                          dict(w, reward=name, rewards=rew, sum=sum(rew), want=want))
        elif rew and rew[-1] != ob.last_reward:
            ctx.violation("c13_last_reward", dict(w, reward=name))


def run_case(ctx, case):
    from job_shop_lib.reinforcement_learning import IdleTimeReward, MakespanReward

    rng = random.Random(case["seed"])
    kind = case["kind"]
    if kind in ("standalone", "standalone_reset", "standalone_factory", "standalone_midhistory"):
        run = Run(case["instance"], case.get("filter"))
        order = rng.random() < 0.5
        rule_sibling = None
        if kind == "standalone" and case["seed"] % 11 == 5:
            # the shared observer-based rule object looks at this dispatcher before the reward
            # observers exist, and serves a second dispatcher of the same instance in between
            from job_shop_lib.dispatching import Dispatcher
            from job_shop_lib.dispatching.rules import observer_based_most_work_remaining_rule as _rule
            _rule(run.d)
            rule_sibling = Run(case["instance"], None, instance=run.instance)
            ctx.count("histories_with_the_shared_rule_serving_two_dispatchers")
        if kind == "standalone_midhistory":
            # observers attached to a dispatcher that already holds a partial schedule; they are
            # judged from the next reset on (a reset must make them start from zero)
            for _ in range(rng.randint(1, run.r.num_ops)):
                o, m = run.choose(rng, "random_ready"); run.dispatch(o, m)
            mk = MakespanReward(run.d); idle = IdleTimeReward(run.d)
            mk_at, idle_at = run.r.makespan(), run.r.idle_time()
            for n_since in range(1, rng.randint(0, run.r.num_ops - len(run.r.history)) + 1):
                o, m = run.choose(rng, "random_ready"); run.dispatch(o, m)
                for ob in (mk, idle):
                    if len(ob.rewards) != n_since or ob.last_reward != ob.rewards[-1]:
                        ctx.violation("c13_reward_emitted_after_mid_history_attachment",
                                      {"observer": type(ob).__name__, "rewards": list(ob.rewards),
                                       "last_reward": ob.last_reward, "dispatches_since": n_since})
                # from the attachment on the rewards add up to what the objective lost since then
                ctx.count("sums_since_mid_history_attachment")
                # (either reading of "the sum equals minus the objective" for an observer that joined
                # late: counted from its attachment, or from the start of the schedule)
                if sum(mk.rewards) not in (-(run.r.makespan() - mk_at), -run.r.makespan()) \
                        or sum(idle.rewards) not in (-(run.r.idle_time() - idle_at), -run.r.idle_time()):
                    ctx.violation("c13_sum_differs_from_objective",
                                  {"where": "since a mid-history attachment", "history": list(run.r.history),
                                   "makespan_rewards": list(mk.rewards), "makespan_then_now": [mk_at, run.r.makespan()],
                                   "idle_rewards": list(idle.rewards), "idle_then_now": [idle_at, run.r.idle_time()]})
                    break
            if any(x > 0 for x in mk.rewards + idle.rewards):
                ctx.violation("c13_positive_reward", {"where": "attached mid-history",
                                                      "rewards": [mk.rewards, idle.rewards]})
            run.d.reset(); run.r.reset()
            ctx.count("attached_mid_history_then_reset")
        elif kind == "standalone_factory":
            # observers obtained through the dispatcher's factory, dropped and obtained again
            mk = run.d.create_or_get_observer(MakespanReward)
            idle = run.d.create_or_get_observer(IdleTimeReward)
            for _ in range(rng.randint(1, run.r.num_ops)):
                o, m = run.choose(rng, "random_ready"); run.dispatch(o, m)
            run.d.unsubscribe(mk); run.d.unsubscribe(idle)
            run.d.reset(); run.r.reset()
            mk2 = run.d.create_or_get_observer(MakespanReward)
            idle2 = run.d.create_or_get_observer(IdleTimeReward)
            ctx.count("factory_reget_after_unsubscribe")
            if mk2 not in run.d.subscribers or idle2 not in run.d.subscribers:
                ctx.violation("c13_factory_returned_unsubscribed_reward_observer",
                              {"subscribers": [repr(x) for x in run.d.subscribers]})
            mk, idle = mk2, idle2
        elif kind == "standalone" and case["seed"] % 3 == 1:
            # built unsubscribed, then subscribed by hand
            cls2 = MakespanReward if order else IdleTimeReward
            try:
                twin_reward = cls2(run.d, subscribe=False) if case["seed"] % 4 == 2 else None
            except Exception:
                twin_reward = None
            mk = MakespanReward(run.d, subscribe=False); idle = IdleTimeReward(run.d, subscribe=False)
            if case["seed"] % 4 == 1:
                # ... by putting them at the head of the public `subscribers` list of a dispatcher
                # that has already been through a reset
                run.d.reset()
                for ob in ((mk, idle) if order else (idle, mk)):
                    run.d.subscribers.insert(0, ob)
                ctx.count("reward_observers_inserted_into_the_subscribers_list")
            else:
                for ob in ((mk, idle) if order else (idle, mk)):
                    run.d.subscribe(ob)
            if twin_reward is not None:
                # a second, equally fresh reward observer of the same class comes and goes again
                # before the first dispatch: the one that stays keeps receiving
                try:
                    run.d.subscribe(twin_reward)
                except Exception:
                    # the library may refuse a second observer of a singleton type on this path as
                    # well; then there is nothing to take away again
                    ctx.count("second_reward_observer_refused_by_the_library")
                else:
                    run.d.unsubscribe(twin_reward)
                if not any(x is mk for x in run.d.subscribers) or not any(x is idle for x in run.d.subscribers) \
                        or any(x is twin_reward for x in run.d.subscribers):
                    ctx.violation("c13_unsubscribing_a_twin_removed_another_reward_observer",
                                  {"subscribers": [f"{type(x).__name__}@{id(x) % 9973}" for x in run.d.subscribers],
                                   "left": f"{cls2.__name__}@{id(twin_reward) % 9973}"})
                ctx.count("same_class_reward_twin_came_and_went")
            ctx.count("reward_observers_subscribed_by_hand")
            if run.d.subscribers.count(mk) != 1 or run.d.subscribers.count(idle) != 1:
                ctx.violation("c13_reward_observer_subscribed_wrong_number_of_times",
                              {"makespan": run.d.subscribers.count(mk), "idle": run.d.subscribers.count(idle)})
        elif order:
            quitter = make_quitter(run.d, rng) if case["seed"] % 4 == 0 else None
            mk = MakespanReward(run.d); idle = IdleTimeReward(run.d)
        else:
            quitter = make_quitter(run.d, rng) if case["seed"] % 4 == 0 else None
            idle = IdleTimeReward(run.d); mk = MakespanReward(run.d)
        if kind == "standalone" and case["seed"] % 4 == 0:
            ctx.count("observer_unsubscribing_itself_before_rewards")
        if kind == "standalone_reset":
            n = rng.randint(1, run.r.num_ops)
            for _ in range(n):
                o, m = run.choose(rng, "random_ready"); run.dispatch(o, m)
            if case["seed"] % 4 == 3 and mk in run.d.subscribers and idle in run.d.subscribers:
                # the observers leave, the dispatcher is reset without them, they come back still
                # carrying the old episode and are reset together with the (already clean) dispatcher
                run.d.unsubscribe(mk); run.d.unsubscribe(idle)
                run.d.reset()
                run.d.subscribe(mk); run.d.subscribe(idle)
                ctx.count("stale_observers_resubscribed_to_a_clean_dispatcher")
            run.d.reset(); run.r.reset()
            ctx.count("after_reset_histories")
        swapper = None
        if kind == "standalone" and case["seed"] % 9 == 4 and mk in run.d.subscribers:
            # an observer notified BEFORE the makespan reward detaches it during one of its updates
            # and subscribes something else in the same breath (subscriber count unchanged): the
            # detached reward observer gets nothing for that dispatch nor afterwards
            from job_shop_lib.dispatching import DispatcherObserver

            class Swapper(DispatcherObserver):
                _is_singleton = False

                def __init__(self, dispatcher, target, at):
                    super().__init__(dispatcher)
                    self.target, self.at, self.n, self.detached_with = target, at, 0, None

                def update(self, scheduled_operation):
                    self.n += 1
                    if self.n == self.at and self.target in self.dispatcher.subscribers:
                        self.detached_with = len(self.target.rewards)
                        self.dispatcher.unsubscribe(self.target)
                        Swapper(self.dispatcher, self.target, 10**9)

                def reset(self):
                    pass
            swapper = Swapper(run.d, mk, rng.randint(1, 3))
            # move it in front of the reward observers
            run.d.subscribers.remove(swapper); run.d.subscribers.insert(0, swapper)
            ctx.count("histories_with_reward_detached_mid_notification")
        raiser = None
        if kind in ("standalone", "standalone_reset") and case["seed"] % 7 == 2:
            raiser = make_raiser(run.d, rng)
            ctx.count("histories_with_a_failing_later_observer")
        check_prefix(ctx, run.r, mk, idle, 0, kind)
        flat = gaps = False
        k = 0
        while not run.done():
            pol = case["policy"]
            before = run.r.makespan()
            o, m = run.choose(rng, pol if pol != "mixed" else rng.choice(gen.POLICIES))
            if rule_sibling is not None:
                from job_shop_lib.dispatching.rules import observer_based_most_work_remaining_rule as _rule
                if not rule_sibling.done():
                    _rule(rule_sibling.d)
                    o9, m9 = rule_sibling.choose(rng, "random_ready"); rule_sibling.dispatch(o9, m9)
                if run.d.available_operations():
                    _rule(run.d)
            try:
                run.dispatch(o, m)
            except RuntimeError:
                if raiser is None:
                    raise
                # a later observer failed: the caller goes on; the operation counts iff the
                # schedule holds it
                ctx.count("dispatches_with_a_failing_later_observer")
                if any(so.operation is run.op(o) for lst in run.d.schedule.schedule for so in lst):
                    run.r.apply(o, m)
                else:
                    check_prefix(ctx, run.r, mk, idle, k, kind,
                                 {"note": "dispatch undone after an observer failure"})
                    continue
            k += 1
            if swapper is not None and swapper.detached_with is not None:
                ctx.count("detached_reward_checks")
                if len(mk.rewards) != swapper.detached_with:
                    ctx.violation("c13_detached_reward_observer_still_rewarded",
                                  {"rewards_when_detached": swapper.detached_with,
                                   "rewards_now": len(mk.rewards), "history": list(run.r.history)})
                    break
                check_prefix(ctx, run.r, None, idle, k, kind)
                continue
            check_prefix(ctx, run.r, mk, idle, k, kind)
            if k == 2 and case["seed"] % 5 == 0 and not run.done() and raiser is None:
                # a deep copy of the dispatcher (e.g. for look-ahead) is independent: dispatching
                # on it must leave the original's reward streams untouched
                import copy
                dup = copy.deepcopy(run.d)
                before_rewards = (list(mk.rewards), list(idle.rewards))
                nxt = dup.raw_ready_operations()[0]
                dup.dispatch(nxt, nxt.machines[0])
                ctx.count("deepcopy_lookahead_checks")
                if (list(mk.rewards), list(idle.rewards)) != before_rewards:
                    ctx.violation("c13_dispatch_on_a_deep_copy_changed_the_original_rewards",
                                  {"before": before_rewards, "after": [list(mk.rewards), list(idle.rewards)]})
                dup_rewards = [x for x in dup.subscribers if hasattr(x, "rewards")]
                if any(len(x.rewards) != k + 1 for x in dup_rewards):
                    ctx.violation("c13_deep_copy_reward_count",
                                  {"counts": [len(x.rewards) for x in dup_rewards], "expected": k + 1})
            flat |= run.r.makespan() == before
            gaps |= idle.rewards[-1] < 0 if idle.rewards else False
        ctx.note_case(case, flat and gaps, fingerprint=str(hash(
            (gen.fingerprint(case["instance"]), tuple(run.r.history), kind))))
        ctx.count("class_" + case["instance"]["cls"])
    elif kind == "env":
        from job_shop_lib.dispatching import DispatcherObserverConfig
        from job_shop_lib.dispatching.feature_observers import FeatureObserverType
        from job_shop_lib.graphs import build_agent_task_graph, build_disjunctive_graph
        from job_shop_lib.reinforcement_learning import SingleJobShopGraphEnv

        instance = gen.build(case["instance"])
        cls = MakespanReward if case["reward"] == "makespan" else IdleTimeReward
        env = SingleJobShopGraphEnv(
            rng.choice([build_agent_task_graph, build_disjunctive_graph])(instance),
            [DispatcherObserverConfig(FeatureObserverType.IS_READY)],
            reward_function_config=DispatcherObserverConfig(cls),
            ready_operations_filter=gen.make_filter(case.get("filter")))
        r = Ref(case["instance"])
        for episode in range(2):
            env.reset(); r.reset()
            k = 0
            done = False
            while not done:
                if case["seed"] % 3 == 0 and rng.random() < 0.3 and r.num_ops - len(r.history) >= 2:
                    # an operation dispatched directly on the environment's dispatcher (warm start,
                    # look-ahead by a rule solver ...) between two environment steps
                    op0 = rng.choice(env.dispatcher.available_operations()); m0 = rng.choice(op0.machines)
                    env.dispatcher.dispatch(op0, m0)
                    r.apply(op0.operation_id, m0); k += 1
                    ctx.count("direct_dispatches_between_env_steps")
                ops = env.dispatcher.available_operations()
                op = rng.choice(ops); m = rng.choice(op.machines)
                n_before = len(env.reward_function.rewards)
                _, reward, done, _, _ = env.step((op.job_id, m))
                r.apply(op.operation_id, m); k += 1
                ctx.count("env_step_reward_checks")
                rew = env.reward_function.rewards
                if len(rew) != n_before + 1 or reward != rew[-1]:
                    ctx.violation("c13_env_step_reward_is_not_the_emitted_one",
                                  {"returned": reward, "rewards": list(rew), "episode": episode,
                                   "history": list(r.history)})
                check_prefix(ctx, r, env.reward_function if cls is MakespanReward else None,
                             env.reward_function if cls is IdleTimeReward else None, k,
                             "env", {"episode": episode})
        ctx.note_case(case, True, fingerprint=str(hash(
            (gen.fingerprint(case["instance"]), tuple(r.history), "env"))))
    else:
        from job_shop_lib.dispatching import DispatcherObserverConfig
        from job_shop_lib.dispatching.feature_observers import FeatureObserverType
        from job_shop_lib.generation import GeneralInstanceGenerator
        from job_shop_lib.reinforcement_learning import MultiJobShopGraphEnv

        cls = MakespanReward if case["reward"] == "makespan" else IdleTimeReward
        g = GeneralInstanceGenerator(num_jobs=(2, 4), num_machines=(2, 3), duration_range=(1, 9),
                                     seed=case["seed"] % 100000)
        env = MultiJobShopGraphEnv(g, [DispatcherObserverConfig(FeatureObserverType.IS_READY)],
                                   reward_function_config=DispatcherObserverConfig(cls))
        hist_all = []
        for episode in range(2):
            env.reset()
            cur = cls
            if episode == 1 and case["seed"] % 2 == 0:
                # replace the reward observer through the public setter with a normally built one
                # (of the other class: reward observers are singletons per class)
                cur = IdleTimeReward if cls is MakespanReward else MakespanReward
                env.reward_function = cur(env.dispatcher)
                ctx.count("reward_replaced_through_setter")
            inst = {"durations": [[op.duration for op in job] for job in env.instance.jobs],
                    "machines": [[list(op.machines) for op in job] for job in env.instance.jobs]}
            r = Ref(inst)
            done = False; k = 0
            while not done:
                op = rng.choice(env.dispatcher.available_operations()); m = rng.choice(op.machines)
                _, reward, done, _, _ = env.step((op.job_id, m))
                r.apply(op.operation_id, m); k += 1
                ctx.count("multi_env_steps")
                rf = env.reward_function
                if not isinstance(rf, cur) or reward != rf.rewards[-1]:
                    ctx.violation("c13_multi_env_step_reward", {"returned": reward,
                                  "rewards": list(rf.rewards), "type": type(rf).__name__,
                                  "expected_type": cur.__name__})
                check_prefix(ctx, r, rf if cur is MakespanReward else None,
                             rf if cur is IdleTimeReward else None, k, "multi_env", {"instance": inst})
            hist_all.append(tuple(r.history))
        ctx.note_case(case, True, fingerprint=str(hash((case["seed"], tuple(hist_all)))))
