"""C11 - incremental features equal a from-scratch recomputation."""

from __future__ import annotations

import itertools
import random

import numpy as np

from .. import gen

gen.WIDE_RATE = 0.01   # wide (~100 operation) instances are costly here: a small share
from ..drive import Run, gen_history_case

ID = "C11"
LEVEL = "exploration"
RULE = (
    "seeded histories (all instance classes without filter; positive-duration "
    "classes under filters); every built-in feature observer subscribed from the "
    "start - alone, with every subset of its feature types, built by class / enum / "
    "string / config, and all seven under a CompositeFeatureObserver in random "
    "order. After EVERY dispatch each value of an entity that still has work left "
    "is compared with the documented definition recomputed by the reference model; "
    "the composite must equal the column-wise concatenation of its parts with "
    "matching column names; constructors are exercised on all instance classes. "
    "distinct = (instance, filter, observer configuration, history); non-trivial = "
    "history reached a state with a scheduled-but-uncompleted operation"
)
ANCHORS = [
    "job_shop_lib.dispatching.feature_observers._earliest_start_time_observer:EarliestStartTimeObserver.update",
    "job_shop_lib.dispatching.feature_observers._earliest_start_time_observer:EarliestStartTimeObserver.__init__",
    "job_shop_lib.dispatching.feature_observers._earliest_start_time_observer:EarliestStartTimeObserver._update_machine_features",
    "job_shop_lib.dispatching.feature_observers._earliest_start_time_observer:EarliestStartTimeObserver._update_machine_features_vectorized",
    "job_shop_lib.dispatching.feature_observers._duration_observer:DurationObserver.update",
    "job_shop_lib.dispatching.feature_observers._is_ready_observer:IsReadyObserver.initialize_features",
    "job_shop_lib.dispatching.feature_observers._is_scheduled_observer:IsScheduledObserver.update",
    "job_shop_lib.dispatching.feature_observers._position_in_job_observer:PositionInJobObserver.update",
    "job_shop_lib.dispatching.feature_observers._remaining_operations_observer:RemainingOperationsObserver.update",
    "job_shop_lib.dispatching.feature_observers._is_completed_observer:IsCompletedObserver.update",
    "job_shop_lib.dispatching.feature_observers._composite_feature_observer:CompositeFeatureObserver.initialize_features",
    "job_shop_lib.dispatching.feature_observers._factory:feature_observer_factory",
]
ASSUMPTIONS = [
    "entity has work left: job/machine = has an unscheduled operation; operation = not completed",
    "EST and position of already scheduled operations are not judged; job/machine completion flag "
    "not judged between 'all scheduled' and 'all completed'; machine-level duration sums and "
    "remaining-operation counts only on non-flexible instances; filters only with positive durations",
    "feature arrays are float32 by design: instances with time values beyond 2**24 are not used here",
]
REQUIRED_COUNTERS = {"nested_composites": 30, "episodes_after_reset": 50, "values_checked": 20000, "composite_checks": 300, "constructions": 500,
                     "obs_EarliestStartTimeObserver": 50, "obs_DurationObserver": 50,
                     "obs_IsReadyObserver": 50, "obs_IsScheduledObserver": 50,
                     "obs_PositionInJobObserver": 50, "obs_RemainingOperationsObserver": 50,
                     "obs_IsCompletedObserver": 50}
WORKERS = {"quick": 1, "thorough": 14}
TYPES = ["is_ready", "earliest_start_time", "duration", "is_scheduled", "position_in_job",
         "remaining_operations", "is_completed"]
SUPPORTED = {"position_in_job": ["operations"], "remaining_operations": ["machines", "jobs"]}
FT = ["operations", "machines", "jobs"]


def gen_cases(ctx):
    rng = ctx.rng
    for i in range(ctx.scale(3000, 480000)):
        filt = i % 3 == 2
        c = gen_history_case(rng, classes=gen.FLOAT32_EXACT_POSITIVE if filt else gen.FLOAT32_EXACT,
                             max_jobs=rng.choice([2, 3, 4, 5]), max_machines=rng.choice([2, 3, 4]),
                             filters=filt)
        if i % 11 == 5 and not gen.has_zero(c["instance"]) and gen.num_ops(c["instance"]) <= 40 \
                and all(isinstance(x, int) and x < 10**4 for j in c["instance"]["durations"] for x in j):
            # six-digit durations with small differences (sums stay below 2**24, exact in float32)
            for job in c["instance"]["durations"]:
                for p in range(len(job)):
                    job[p] += 100000
        mode = rng.choice(["all_composite", "all_composite", "single", "single", "subset"])
        c["kind"] = "history"
        c["mode"] = mode
        # a reset (after a partial or complete episode) followed by another episode
        c["episodes"] = rng.choice([1, 1, 2, 3])
        c["abandon"] = rng.random() < 0.5
        # a second dispatcher for the same instance object with the same kinds of observers,
        # following its own history in between
        c["sibling"] = rng.random() < 0.15
        # the dispatcher's filter attribute is (re)assigned while observers exist (positive durations)
        c["refilter"] = (not gen.has_zero(c["instance"])) and rng.random() < 0.12
        # a second observer of the same class (other feature types) is subscribed as well and
        # leaves in the middle of the history
        c["same_class_twin"] = rng.random() < 0.15
        if mode == "single":
            t = TYPES[i % 7]
            sup = SUPPORTED.get(t, FT)
            k = rng.randint(1, len(sup))
            fts = rng.sample(sup, k) if rng.random() < 0.7 else None
            c["observers"] = [{"type": t, "feature_types": fts,
                               "form": rng.choice(["class", "enum", "string", "config"])}]
        else:
            ts = TYPES[:]
            rng.shuffle(ts)
            if mode == "subset":
                ts = ts[: rng.randint(2, 5)]
            c["observers"] = [{"type": t, "feature_types": None,
                               "form": rng.choice(["class", "enum", "string", "config"])} for t in ts]
        if i % 25 == 3:
            # time values beyond 2**24: only the earliest-start-time observer is judged, after the
            # first dispatch of an episode (then every unscheduled entry of its float64 table has
            # been recomputed exactly), against the float32 rounding of the exact value
            saved = gen.HUGE_EXPONENTS
            gen.HUGE_EXPONENTS = [24, 24, 25, 26]      # the float32 carrier is judged up to here
            try:
                c["instance"] = gen.gen_instance(rng, "huge", max_jobs=3, max_machines=3)
            finally:
                gen.HUGE_EXPONENTS = saved
            c["filter"] = None
            c["mode"] = "single"
            c["observers"] = [{"type": "earliest_start_time", "feature_types": None, "form": "class"}]
            c["huge"] = True
        yield c
    for i in range(ctx.scale(2, 56)):
        # a job of more than 256 operations (counters and positions beyond 8 bits)
        yield {"kind": "history", "mode": "all_composite", "policy": "random_ready", "filter": None,
               "seed": rng.randrange(2**31), "instance": gen.long_instance(rng), "episodes": 1,
               "abandon": False, "sibling": False,
               "observers": [{"type": t, "feature_types": None, "form": "class"} for t in TYPES]}
    if ctx.shard == 0:
        # a job of more than a thousand operations: propagating along a job is iteration, whatever
        # its length
        yield {"kind": "history", "mode": "single", "policy": "random_ready", "filter": None,
               "seed": rng.randrange(2**31), "instance": gen.long_instance(rng, n=1100), "episodes": 1,
               "abandon": False, "sibling": False,
               "observers": [{"type": "earliest_start_time", "feature_types": None, "form": "class"}]}
    for i in range(ctx.scale(600, 72000)):
        inst = gen.gen_instance(rng, None, max_jobs=rng.choice([1, 2, 3, 4, 5]), max_machines=rng.choice([1, 2, 3, 4]))
        yield {"kind": "construct", "instance": inst, "seed": rng.randrange(2**31)}


def witnesses(ctx):
    """Known-finding witness (DurationObserver frozen value), re-executed on every run."""
    yield {"kind": "history", "mode": "single", "policy": "random_ready", "seed": 1, "filter": None,
           "instance": {"cls": "witness", "durations": [[7], [2, 3]], "machines": [[[0]], [[1], [1]]]},
           "history": [[0, 0], [1, 1], [2, 1]],
           "observers": [{"type": "duration", "feature_types": ["operations"], "form": "class"}]}


def _ftname(ft):
    """name of a feature type, whether the observer keeps it as the enum member or as the plain
    string it was given (the enum is a str: both are the same dictionary key)"""
    return getattr(ft, "value", ft)


def make_observer(d, spec):
    from job_shop_lib.dispatching import DispatcherObserverConfig
    from job_shop_lib.dispatching.feature_observers import (
        FeatureObserverType, FeatureType, feature_observer_factory,
        IsReadyObserver, EarliestStartTimeObserver, DurationObserver, IsScheduledObserver,
        PositionInJobObserver, RemainingOperationsObserver, IsCompletedObserver)
    classes = {"is_ready": IsReadyObserver, "earliest_start_time": EarliestStartTimeObserver,
               "duration": DurationObserver, "is_scheduled": IsScheduledObserver,
               "position_in_job": PositionInJobObserver,
               "remaining_operations": RemainingOperationsObserver,
               "is_completed": IsCompletedObserver}
    kw = {}
    if spec["feature_types"] is not None:
        fts = [FeatureType(x) for x in spec["feature_types"]]
        if spec["form"] in ("string", "config") and (len(spec["type"]) + len(fts)) % 2 == 0:
            # configurations read from a file carry the feature types as plain strings
            fts = [str(x) for x in spec["feature_types"]]
        kw["feature_types"] = fts[0] if len(fts) == 1 and spec["form"] == "class" else fts
    t, form = spec["type"], spec["form"]
    if form == "class":
        return classes[t](d, **kw)
    if form == "enum":
        return feature_observer_factory(FeatureObserverType(t), dispatcher=d, **kw)
    if form == "string":
        return feature_observer_factory(t, dispatcher=d, **kw)
    return feature_observer_factory(DispatcherObserverConfig(classes[t] if len(t) % 2 else t, kwargs=kw),
                                    dispatcher=d)


def expected(r, run, now, avail):
    """Reference feature values: {observer class name: {ft: {entity: value}}} for
    the judged entities only."""
    N, M, J = r.num_ops, r.num_machines, r.num_jobs
    unsched = set(r.unscheduled())
    completed = set(r.completed(now))
    not_completed = [o for o in range(N) if o not in completed]
    jobs_left = [j for j in range(J) if r.job_next[j] < len(r.job_ops[j])]
    ops_on = [[o for o in range(N) if m in r.op_machines[o]] for m in range(M)]
    machines_left = [m for m in range(M) if any(o in unsched for o in ops_on[m])]
    exp = {}
    # ---- readiness
    av = set(avail)
    exp["IsReadyObserver"] = {
        "operations": {o: float(o in av) for o in not_completed},
        "machines": {m: float(any(m in r.op_machines[o] for o in av)) for m in machines_left},
        "jobs": {j: float(any(r.op_job[o] == j for o in av)) for j in jobs_left},
    }
    # ---- earliest start time (forward recursion), relative to the clock
    est = {}
    for j in jobs_left:
        prev_end = None
        for o in r.job_ops[j][r.job_next[j]:]:
            mfree = min(r.machine_end[m] for m in r.op_machines[o])
            e = max(r.job_end[j] if prev_end is None else prev_end, mfree)
            est[o] = e
            prev_end = e + r.op_dur[o]
    exp["EarliestStartTimeObserver"] = {
        "operations": {o: float(est[o] - now) for o in est},
        "jobs": {j: float(est[r.job_ops[j][r.job_next[j]]] - now) for j in jobs_left},
        "machines": {m: float(min(est[o] for o in ops_on[m] if o in unsched) - now)
                     for m in machines_left},
    }
    # ---- duration
    dur_ops = {}
    for o in not_completed:
        dur_ops[o] = float(r.op_dur[o]) if o in unsched else float(r.end[o] - max(r.start[o], now))
    exp["DurationObserver"] = {
        "operations": dur_ops,
        "jobs": {j: float(sum(r.op_dur[o] for o in r.job_ops[j][r.job_next[j]:])) for j in jobs_left},
        "machines": ({} if r.flexible else
                     {m: float(sum(r.op_dur[o] for o in ops_on[m] if o in unsched)) for m in machines_left}),
    }
    # ---- scheduled flag / ongoing counts (all entities)
    ongoing = r.ongoing(now)
    exp["IsScheduledObserver"] = {
        "operations": {o: float(o not in unsched) for o in range(N)},
        "jobs": {j: float(sum(1 for o in ongoing if r.op_job[o] == j)) for j in range(J)},
        "machines": {m: float(sum(1 for o in ongoing if r.machine_of[o] == m)) for m in range(M)},
    }
    # ---- position among unscheduled
    exp["PositionInJobObserver"] = {
        "operations": {o: float(r.op_pos[o] - r.job_next[r.op_job[o]]) for o in unsched}}
    # ---- remaining operations
    exp["RemainingOperationsObserver"] = {
        "jobs": {j: float(len(r.job_ops[j]) - r.job_next[j]) for j in jobs_left},
        "machines": ({} if r.flexible else
                     {m: float(sum(1 for o in ops_on[m] if o in unsched)) for m in machines_left}),
    }
    # ---- completion flags
    comp_m = {}
    for m in range(M):
        if m in machines_left:
            comp_m[m] = 0.0
        elif ops_on[m] and all(o in completed for o in ops_on[m]):
            comp_m[m] = 1.0
    comp_j = {}
    for j in range(J):
        if j in jobs_left:
            comp_j[j] = 0.0
        elif all(o in completed for o in r.job_ops[j]):
            comp_j[j] = 1.0
    exp["IsCompletedObserver"] = {
        "operations": {o: float(o in completed) for o in range(N)},
        "machines": comp_m, "jobs": comp_j,
    }
    return exp


HUGE_MODE = [False]


def compare(ctx, run, observers, now, avail, step_info):
    r = run.r
    if HUGE_MODE[0] and not r.history:
        return True     # the initial table is built from float32 durations: not judged
    exp = expected(r, run, now, avail)
    for ob in observers:
        name = type(ob).__name__
        if name not in exp:
            continue
        for ft, arr in ob.features.items():
            want = exp[name].get(_ftname(ft), {})
            n_ent = {"operations": r.num_ops, "machines": r.num_machines, "jobs": r.num_jobs}[_ftname(ft)]
            if arr.shape != (n_ent, 1) or arr.dtype != np.float32:
                ctx.violation("c11_feature_array_shape_or_dtype",
                              {"observer": name, "feature": _ftname(ft), "shape": list(arr.shape),
                               "dtype": str(arr.dtype)})
                continue
            for ent, w in want.items():
                ctx.count("values_checked")
                got = float(arr[ent, 0])
                if HUGE_MODE[0]:
                    w = float(np.float32(w))      # the carrier is float32 by design
                    ctx.count("values_checked_as_float32_rounding")
                if got != w:
                    wit = {"observer": name, "feature": _ftname(ft), "entity": ent, "got": got,
                           "want": w, "history": list(r.history), "filter": run.filter_names,
                           "now": now}
                    wit.update(step_info(name, _ftname(ft), ent))
                    ctx.violation("c11_feature_differs_from_definition", wit)
                    if ctx.too_many():
                        return False
    return True


def check_composite(ctx, comp, parts, where):
    ctx.count("composite_checks")
    fts = []
    for ob in parts:
        for ft in ob.features:
            if ft not in fts:
                fts.append(ft)
    if set(comp.features) != set(fts):
        ctx.violation("c11_composite_feature_types", {"where": where,
                      "got": sorted(_ftname(k) for k in comp.features), "want": sorted(_ftname(k) for k in fts)})
        return
    for ft in fts:
        cols = [ob.features[ft] for ob in parts if ft in ob.features]
        want = np.concatenate(cols, axis=1)
        names = []
        for ob in parts:
            if ft in ob.features:
                base = type(ob).__name__.replace("Observer", "")
                k = ob.features[ft].shape[1]
                names += [base] if k == 1 else [f"{base}_{i}" for i in range(k)]
        got = comp.features[ft]
        if got.shape != want.shape or not np.array_equal(got, want, equal_nan=True):
            ctx.violation("c11_composite_differs_from_concatenation",
                          {"where": where, "feature": _ftname(ft), "got": got.tolist(), "want": want.tolist()})
        if list(comp.column_names[ft]) != names:
            ctx.violation("c11_composite_column_names",
                          {"where": where, "feature": _ftname(ft), "got": list(comp.column_names[ft]), "want": names})


def earlier_session(ctx, case):
    """Something else the process did before: a default composite (everything that is subscribed)
    over a dispatcher whose observers cover only some feature types."""
    if case["seed"] % 10 != 7:
        return
    from job_shop_lib.dispatching import Dispatcher
    from job_shop_lib.dispatching.feature_observers import CompositeFeatureObserver
    rng = random.Random(case["seed"] + 3)
    d0 = Dispatcher(gen.build(case["instance"]))
    t0 = rng.choice(["position_in_job", "remaining_operations"])
    make_observer(d0, {"type": t0, "feature_types": None, "form": "class"})
    CompositeFeatureObserver(d0)
    ctx.count("default_composites_over_partial_coverage_built_earlier_in_the_process")


def run_history(ctx, case):
    from job_shop_lib.dispatching.feature_observers import CompositeFeatureObserver
    earlier_session(ctx, case)
    HUGE_MODE[0] = bool(case.get("huge"))
    rng = random.Random(case["seed"])
    run = Run(case["instance"], case.get("filter"))
    d, r = run.d, run.r
    observers = []
    late_creation = case["seed"] % 9 == 5 and not case.get("history") and not case.get("huge") \
        and r.num_ops >= 2
    if late_creation:
        # the observers are created on a dispatcher that already holds a partial schedule (as the
        # library's own rules do with their helper observers); they are judged from the next
        # reset on, i.e. over episodes in which they are subscribed from the start
        for _ in range(rng.randint(1, r.num_ops - 1)):
            o0, m0 = run.choose(rng, "random_ready"); run.dispatch(o0, m0)
        ctx.count("histories_with_observers_created_on_a_partial_schedule")
    if case["seed"] % 5 == 1:
        # a request the library documents as unsupported (a feature type the observer does not
        # offer) is refused; the caller catches the error - nothing of the refused observer stays
        # behind on the dispatcher
        for t_bad, sup in SUPPORTED.items():
            missing = [x for x in FT if x not in sup]
            if not missing:
                continue
            before_ids = [id(x) for x in d.subscribers]
            try:
                ob_bad = make_observer(d, {"type": t_bad, "feature_types": [rng.choice(missing)], "form": "enum"})
            except Exception:
                ctx.count("unsupported_feature_types_refused")
                if [id(x) for x in d.subscribers] != before_ids:
                    ctx.violation("c11_refused_observer_left_subscribed",
                                  {"observer": t_bad, "subscribers": [type(x).__name__ for x in d.subscribers]})
                    return
            else:
                d.unsubscribe(ob_bad)       # (a library that starts to offer it is fine)
    for spec in case["observers"]:
        try:
            ob = make_observer(d, spec)
        except Exception as e:
            ctx.violation("c11_observer_cannot_be_constructed",
                          {"observer": spec, "error": repr(e)[:200], "instance_shape":
                           [len(j) for j in case["instance"]["durations"]]})
            continue
        observers.append(ob)
        ctx.count("obs_" + type(ob).__name__)
        ctx.count("constructions")
    comp = None
    nested = None
    if case["mode"] == "single" and observers and rng.random() < 0.5:
        # a composite over one observer that covers only some feature types
        comp = CompositeFeatureObserver(d, feature_observers=list(observers))
        parts = list(observers)
        check_composite(ctx, comp, parts, "initial (single component)")
        ctx.count("single_component_composites")
    if case["mode"] != "single" and observers:
        comp = (CompositeFeatureObserver(d, feature_observers=observers)
                if rng.random() < 0.5 else CompositeFeatureObserver(d))
        parts = observers if comp.feature_observers is observers else list(comp.feature_observers)
        check_composite(ctx, comp, parts, "initial")
        if rng.random() < 0.4:
            # a composite may itself be a component: explicitly, or picked up implicitly because
            # it is a subscribed FeatureObserver
            extra = make_observer(d, {"type": rng.choice(TYPES[:4]), "feature_types": None, "form": "class"})
            observers = observers + [extra]   # a new list: comp.feature_observers must stay as it is
            if rng.random() < 0.5:
                outer_parts = [comp, extra]
                outer = CompositeFeatureObserver(d, feature_observers=outer_parts)
            else:
                outer = CompositeFeatureObserver(d)
                outer_parts = list(outer.feature_observers)
            nested = (outer, outer_parts)
            ctx.count("nested_composites")
            check_composite(ctx, outer, outer_parts, "nested initial")
    clock_after_dispatch = {}   # op -> reference clock right after its own dispatch

    def make_step_info(rr, clocks):
        def step_info(name, ft, ent):
            info = {}
            if name == "DurationObserver" and ft == "operations" and ent in rr.start:
                c0 = clocks.get(ent)
                info["op_start"], info["op_end"] = rr.start[ent], rr.end[ent]
                info["clock_after_own_dispatch"] = c0
                if c0 is not None:
                    info["frozen_model_value"] = float(rr.end[ent] - max(rr.start[ent], c0))
            return info
        return step_info
    step_info = make_step_info(r, clock_after_dispatch)
    if late_creation:
        if rng.random() < 0.5 and not run.done():
            o0, m0 = run.choose(rng, "random_ready"); run.dispatch(o0, m0)
        d.reset(); r.reset()

    def state():
        now = r.current_time(run.filter_names) if run.exact_filters else None
        return now, (r.available(run.filter_names) if run.exact_filters else None)

    sib = None
    if case.get("sibling") and not case.get("huge") and not case.get("history"):
        sib = Run(case["instance"], case.get("filter"), instance=run.instance)
        sib_observers = []
        for spec in case["observers"]:
            try:
                sib_observers.append(make_observer(sib.d, spec))
            except Exception:
                pass    # reported for the first dispatcher already
        ctx.count("histories_with_a_sibling_dispatcher")

    sib_clocks = {}

    def sibling_step():
        if sib.done():
            sib.d.reset(); sib.r.reset(); sib_clocks.clear()
        o9, m9 = sib.choose(rng, rng.choice(gen.POLICIES))
        sib.dispatch(o9, m9)
        now9 = sib.r.current_time(sib.filter_names) if sib.exact_filters else None
        avail9 = sib.r.available(sib.filter_names) if sib.exact_filters else None
        sib_clocks[o9] = now9
        return compare(ctx, sib, sib_observers, now9, avail9, make_step_info(sib.r, sib_clocks))

    twin_ob = None
    if case.get("same_class_twin") and case["mode"] == "single" and observers and not case.get("huge"):
        spec0 = case["observers"][0]
        sup0 = SUPPORTED.get(spec0["type"], FT)
        try:
            twin_ob = make_observer(d, {"type": spec0["type"], "feature_types": [rng.choice(sup0)], "form": "class"})
            observers = observers + [twin_ob]
            ctx.count("histories_with_a_second_observer_of_the_same_class")
        except Exception:
            twin_ob = None      # singleton kinds refuse a second one
    refilter_at = rng.randint(1, max(1, r.num_ops - 2)) if case.get("refilter") and not case.get("history") else None
    skip_once = False
    fork_at = (rng.randint(1, max(1, r.num_ops - 1)) if case["seed"] % 8 == 6 and not case.get("history")
               and not case.get("huge") and not case.get("refilter") else None)
    now, avail = state()
    ok = compare(ctx, run, observers, now, avail, step_info)
    nontrivial = False
    episodes_left = case.get("episodes", 1) - 1
    while ok and (not run.done() or episodes_left > 0):
        if run.done() or (episodes_left > 0 and case.get("abandon") and r.history
                          and rng.random() < 0.15):
            episodes_left -= 1
            d.reset(); r.reset(); clock_after_dispatch.clear()
            ctx.count("episodes_after_reset")
            now, avail = state()
            ok = compare(ctx, run, observers, now, avail, step_info)
            if comp is not None:
                check_composite(ctx, comp, parts, "after reset")
            continue
        if sib is not None and not sibling_step():
            break
        if twin_ob is not None and len(r.history) >= 1 and rng.random() < 0.3 and twin_ob in d.subscribers:
            d.unsubscribe(twin_ob)
            observers = [x for x in observers if x is not twin_ob]
            ctx.count("same_class_twin_unsubscribed")
        if fork_at is not None and len(r.history) == fork_at and twin_ob is None:
            # the work goes on on a copy of the dispatcher (copy.deepcopy or a pickle round trip)
            # with the copy's own observers
            import copy
            import pickle
            fork_at = None
            pos = [next(i for i, x in enumerate(d.subscribers) if x is ob) for ob in observers
                   if any(x is ob for x in d.subscribers)]
            if len(pos) == len(observers):
                try:
                    d2 = copy.deepcopy(d) if case["seed"] % 2 else pickle.loads(pickle.dumps(d))
                except Exception:
                    d2 = None           # (not every user filter can be pickled)
                if d2 is not None:
                    d = d2
                    run.d, run.instance = d, d.instance
                    run.ops = [op for job in d.instance.jobs for op in job]
                    observers = [d.subscribers[i] for i in pos]
                    comp = nested = None
                    ctx.count("histories_continued_on_a_copy_of_the_dispatcher")
        if refilter_at is not None and len(r.history) == refilter_at:
            refilter_at = None
            new_spec = rng.choice([None, {"names": [rng.choice(gen.FILTER_NAMES)], "form": "function"}])
            d.ready_operations_filter = gen.make_filter(new_spec)
            run.filter_spec = new_spec
            run.filter_names = None if new_spec is None else new_spec["names"]
            run.exact_filters, run.clock_exact = True, True     # positive durations only
            ctx.count("filter_reassigned_while_observers_exist")
        pol = case["policy"]
        if case.get("history"):
            o, m = case["history"][len(r.history)]
            run.dispatch(o, m)
        elif case["seed"] % 7 == 3 and not case.get("huge") and rng.random() < 0.5:
            # this step is played by a rule solver (its own default filters) on the user's dispatcher
            from ._env_workload import solver_steps
            n_before = len(r.history)
            solver_steps(ctx, run, rng, 1, "c11")
            if len(r.history) != n_before + 1 or getattr(run, "filter_changed_by_solver", False):
                break
            o, m = r.history[-1]
            ctx.count("steps_played_by_a_rule_solver_with_observers_watching")
        else:
            o, m = run.choose(rng, pol if pol != "mixed" else rng.choice(gen.POLICIES))
            run.dispatch(o, m)
        if rng.random() < 0.2 and not run.done() and d.available_operations():
            # rules are clients of the observers too (the observer-based rule shares the subscribed
            # DurationObserver): evaluating one must not change what the observers report
            from job_shop_lib.dispatching.rules import observer_based_most_work_remaining_rule
            observer_based_most_work_remaining_rule(d)
            ctx.count("observer_based_rule_evaluations")
        now, avail = state()
        clock_after_dispatch[o] = now
        if r.ongoing(now):
            nontrivial = True
        ok = compare(ctx, run, observers, now, avail, step_info)
        if comp is not None:
            check_composite(ctx, comp, parts, f"after {len(r.history)} dispatches")
        if nested is not None:
            check_composite(ctx, nested[0], nested[1], f"nested after {len(r.history)} dispatches")
    ctx.note_case(case, nontrivial, fingerprint=str(hash(
        (gen.fingerprint(case["instance"]), str(case.get("filter")), str(case["observers"]),
         tuple(r.history)))))
    ctx.count("class_" + case["instance"]["cls"])


def run_construct(ctx, case):
    from job_shop_lib.dispatching import Dispatcher
    inst = case["instance"]
    instance = gen.build(inst)
    rng_c = random.Random(case["seed"])
    for t in TYPES:
        sup = SUPPORTED.get(t, FT)
        subsets = [None] + [list(c) for k in range(1, len(sup) + 1) for c in itertools.combinations(sup, k)]
        for fts in subsets:
            for form in ("class", "string"):
                d = Dispatcher(instance)
                if rng_c.random() < 0.3:
                    # other observers that track only some feature types are already subscribed
                    pre = rng_c.choice(["remaining_operations", "is_completed", "duration", "is_ready"])
                    sup_pre = SUPPORTED.get(pre, FT)
                    make_observer(d, {"type": pre, "feature_types": [rng_c.choice(sup_pre)], "form": "class"})
                    ctx.count("constructions_with_partial_observers_present")
                ctx.count("constructions")
                try:
                    ob = make_observer(d, {"type": t, "feature_types": fts, "form": form})
                    want = set(fts or sup)
                    if {_ftname(k) for k in ob.features} != want or not any(x is ob for x in d.subscribers):
                        ctx.violation("c11_constructed_observer_feature_types",
                                      {"observer": t, "requested": fts,
                                       "got": sorted(_ftname(k) for k in ob.features)})
                except Exception as e:
                    ctx.violation("c11_observer_cannot_be_constructed",
                                  {"observer": {"type": t, "feature_types": fts, "form": form},
                                   "error": repr(e)[:200],
                                   "ops_per_job": [len(j) for j in inst["durations"]]})
                    break
    ctx.note_case(case, True, fingerprint=str(hash(gen.fingerprint(inst))))


def run_case(ctx, case):
    (run_history if case["kind"] == "history" else run_construct)(ctx, case)
