"""C14 - instances and schedules survive serialisation; views match."""

from __future__ import annotations

import json
import os
import random
import tempfile

import numpy as np

from .. import gen
from ..drive import Run
from ..ref import Ref, feasibility_errors, schedule_triples, sequences_acyclic

ID = "C14"
LEVEL = "exploration"
RULE = (
    "seeded instances of all classes: every derived view is compared with its "
    "definition recomputed from the raw matrices; dict / JSON / Taillard-text round "
    "trips (text written by the harness with comment lines and irregular "
    "whitespace) must reproduce operations, ids, name and metadata. Non-flexible "
    "instances: dispatcher-built schedules are rebuilt from their job sequences and "
    "from their dict form (also through JSON) and compared as triples; per-machine "
    "permutations (half random shuffles, half a valid sequence set with two "
    "conflicting entries swapped) must be accepted iff an independent topological "
    "sort finds them acyclic, within a dispatch-count budget, raising only "
    "ValidationError. Immutability: a content fingerprint of the instance is taken "
    "before and after handing it to dispatchers+filters, rule solvers, CP-SAT, "
    "observers, graph builders/updaters, environments and plotting. distinct = "
    "distinct (instance, sub-check input); non-trivial = instance has >= 2 jobs and "
    ">= 3 operations"
)
ANCHORS = [
    "job_shop_lib._job_shop_instance:JobShopInstance.set_operation_attributes",
    "job_shop_lib._job_shop_instance:JobShopInstance.to_dict",
    "job_shop_lib._job_shop_instance:JobShopInstance.from_matrices",
    "job_shop_lib._job_shop_instance:JobShopInstance.from_taillard_file",
    "job_shop_lib._job_shop_instance:JobShopInstance._fill_matrix_with_nans_2d",
    "job_shop_lib._job_shop_instance:JobShopInstance._fill_matrix_with_nans_3d",
    "job_shop_lib._schedule:Schedule.to_dict",
    "job_shop_lib._schedule:Schedule.from_dict",
    "job_shop_lib._schedule:Schedule.from_job_sequences",
]
ASSUMPTIONS = [
    "Taillard text contains no blank lines (not part of the format); empty jobs excluded",
    "k-th occurrence of job j in machine m's sequence denotes the k-th operation of j on m",
]
REQUIRED_COUNTERS = {"view_checks": 200, "dict_round_trips": 200, "taillard_round_trips": 100,
                     "schedule_round_trips": 100, "permutation_sets": 200,
                     "permutations_rejected": 30, "permutations_accepted": 30,
                     "immutability_checks": 60}
WORKERS = {"quick": 1, "thorough": 14}


def gen_cases(ctx):
    rng = ctx.rng
    for i in range(ctx.scale(3500, 540000)):
        inst = gen.gen_instance(rng, "fractional" if i % 12 == 7 else None,
                                max_jobs=rng.choice([2, 3, 4, 5]), max_machines=rng.choice([2, 3, 4, 5]))
        yield {"kind": "views", "instance": inst, "seed": rng.randrange(2**31)}
    for i in range(ctx.scale(3500, 540000)):
        inst = gen.gen_instance(rng, rng.choice(gen.NONFLEX_CLASSES), max_jobs=rng.choice([2, 3, 4]),
                                max_machines=rng.choice([2, 3, 4]))
        yield {"kind": "sequences", "instance": inst, "seed": rng.randrange(2**31)}
    if ctx.shard == 0:
        # one very long job (1300 operations alternating between two machines) next to a short one:
        # decoding its job sequences is a matter of iteration, not of stack depth
        n = 1300
        yield {"kind": "long_sequences", "seed": rng.randrange(2**31),
               "instance": {"cls": "long", "durations": [[1 + (k % 3) for k in range(n)], [2, 1]],
                            "machines": [[[k % 2] for k in range(n)], [[1], [0]]]}}
    names = ["ft06", "la01", "orb01", "abz5"] if ctx.tier == "quick" else [
        "ft06", "ft10", "ft20", "la01", "la06", "la16", "la21", "la31", "orb01", "abz5", "abz7",
        "swv01", "yn1", "ta01", "ta11", "ta31"]
    for i, n in enumerate(names):
        if i % ctx.nshards == ctx.shard:
            yield {"kind": "benchmark_views", "name": n, "seed": 0, "instance": {"cls": "benchmark"}}
    for i in range(ctx.scale(210, 30000)):
        inst = gen.gen_instance(rng, None, max_jobs=3, max_machines=3)
        yield {"kind": "immutability", "instance": inst, "seed": rng.randrange(2**31),
               "consumer": i % 7}


def content(instance):
    """Content fingerprint of a library instance (what no consumer may change)."""
    return (
        [[(tuple(op.machines), op.duration, op.job_id, op.position_in_job, op.operation_id,
           type(op.machines).__name__) for op in job] for job in instance.jobs],
        instance.name, json.dumps(instance.metadata, sort_keys=True, default=str),
        [id(op) for job in instance.jobs for op in job],
    )


def nan_equal(a, b):
    a, b = np.asarray(a), np.asarray(b)
    return a.shape == b.shape and bool(np.all((a == b) | (np.isnan(a) & np.isnan(b))))


def check_views(ctx, inst, I, tag="views"):
    r = Ref(inst)
    D, Ms = inst["durations"], inst["machines"]
    bad = []

    def eq(name, got, want):
        if got != want:
            bad.append({"view": name, "got": got, "want": want})

    ids = [(op.job_id, op.position_in_job, op.operation_id) for job in I.jobs for op in job]
    eq("operation attributes", ids, [(r.op_job[o], r.op_pos[o], o) for o in range(r.num_ops)])
    eq("num_jobs", I.num_jobs, len(D))
    eq("num_machines", I.num_machines, r.num_machines)
    eq("num_operations", I.num_operations, r.num_ops)
    eq("is_flexible", I.is_flexible, r.flexible)
    eq("durations_matrix", I.durations_matrix, [list(j) for j in D])
    want_mm = [[list(m) for m in j] for j in Ms] if r.flexible else [[m[0] for m in j] for j in Ms]
    eq("machines_matrix", I.machines_matrix, want_mm)
    L = max(len(j) for j in D)
    da = np.full((len(D), L), np.nan, dtype=np.float32)
    for j, row in enumerate(D):
        da[j, :len(row)] = row
    if not nan_equal(I.durations_matrix_array, da) or I.durations_matrix_array.dtype != np.float32:
        bad.append({"view": "durations_matrix_array", "got": I.durations_matrix_array.tolist()})
    if r.flexible:
        K = max(len(m) for j in Ms for m in j)
        ma = np.full((len(D), L, K), np.nan, dtype=np.float32)
        for j, row in enumerate(Ms):
            for p, ms in enumerate(row):
                ma[j, p, :len(ms)] = ms
    else:
        ma = np.full((len(D), L), np.nan, dtype=np.float32)
        for j, row in enumerate(Ms):
            ma[j, :len(row)] = [m[0] for m in row]
    if not nan_equal(I.machines_matrix_array, ma):
        bad.append({"view": "machines_matrix_array", "got": np.asarray(I.machines_matrix_array).tolist(),
                    "want": ma.tolist()})
    obm = [[o for o in range(r.num_ops) if m in r.op_machines[o]] for m in range(r.num_machines)]
    got_obm = [[op.operation_id for op in lst] for lst in I.operations_by_machine]
    eq("operations_by_machine", got_obm, obm)
    flat = [op for job in I.jobs for op in job]
    if any(flat[i] is not op for lst, want in zip(I.operations_by_machine, obm) for op, i in zip(lst, want)):
        bad.append({"view": "operations_by_machine identity"})
    eq("max_duration", I.max_duration, max(r.op_dur))
    eq("max_duration_per_job", list(I.max_duration_per_job), [max(j) for j in D])
    eq("max_duration_per_machine", list(I.max_duration_per_machine),
       [max([r.op_dur[o] for o in lst], default=0) for lst in obm])
    eq("job_durations", list(I.job_durations), [sum(j) for j in D])
    eq("machine_loads", list(I.machine_loads), [sum(r.op_dur[o] for o in lst) for lst in obm])
    eq("total_duration", I.total_duration, sum(r.op_dur))
    ctx.count("view_checks")
    for b in bad[:3]:
        ctx.violation("c14_view_differs_from_definition", dict(b, where=tag))


def same_instance(ctx, inst, J, name, metadata, where):
    ops = [[(list(op.machines), op.duration, op.job_id, op.position_in_job, op.operation_id)
            for op in job] for job in J.jobs]
    r = Ref(inst)
    want = [[(list(r.op_machines[o]), r.op_dur[o], r.op_job[o], r.op_pos[o], o) for o in ids]
            for ids in r.job_ops]
    if ops != want:
        ctx.violation("c14_round_trip_changed_operations", {"where": where, "got": ops, "want": want})
    if J.name != name:
        ctx.violation("c14_round_trip_changed_name", {"where": where, "got": J.name, "want": name})
    if J.metadata != metadata:
        ctx.violation("c14_round_trip_changed_metadata", {"where": where, "got": J.metadata, "want": metadata})


def taillard_text(inst, rng, comment="#"):
    r = Ref(inst)
    lines = []
    if rng.random() < 0.7:
        lines.append(comment + " generated by jsverif")
    if rng.random() < 0.3:
        lines.append(comment + "second comment line")
    lines.append(f"{r.num_jobs}{rng.choice([' ', '  ', chr(9)])}{r.num_machines}")
    for ids in r.job_ops:
        if rng.random() < 0.2:
            lines.append(comment + "   a comment between jobs")
        sep = rng.choice([" ", "  ", "\t", "   "])
        row = sep.join(f"{r.op_machines[o][0]}{sep}{r.op_dur[o]}" for o in ids)
        lines.append(rng.choice(["", " ", "\t"]) + row + rng.choice(["", " ", "  "]))
    return "\n".join(lines) + "\n"


def random_metadata(rng):
    return {
        "optimum": rng.choice([None, rng.randint(1, 999)]),
        "bounds": {"lower": rng.randint(0, 9), "upper": rng.randint(10, 99)},
        "tags": [rng.choice("abc") for _ in range(rng.randint(0, 3))],
        "ratio": rng.choice([0.5, 1.25, 2.0]),
        # keys that look like parameter names of the library's own constructors
        **rng.choice([{}, {}, {"metadata": {"source": "orlib", "optimum": rng.randint(1, 9)}},
                      {"instance": "la01"}, {"schedule": [[0, 1]]}]),
    }


def run_views(ctx, case):
    from job_shop_lib import JobShopInstance

    rng = random.Random(case["seed"])
    inst = case["instance"]
    meta = random_metadata(rng)
    name = rng.choice(["inst", "name with spaces", "x.y", "la01", "", "0"])
    own_durations = [list(j) for j in inst["durations"]]
    own_machines = ([[list(m) for m in j] for j in inst["machines"]] if rng.random() < 0.5 or gen.is_flexible(inst)
                    else [[m[0] for m in j] for j in inst["machines"]])
    I = JobShopInstance.from_matrices(own_durations, own_machines, name=name, metadata=dict(meta))
    check_views(ctx, inst, I)
    if case["seed"] % 4 == 1:
        # the caller goes on working with its own matrices (a perturbation loop): the instance
        # built from them is not affected
        for row in own_durations:
            row[0] = row[0] + 7
        own_durations.append([1])
        for row in own_machines:
            # (entries are replaced, not edited: an operation keeps the machines list it was given)
            row[0] = [98, 99] if isinstance(row[0], list) else 98
        I.durations_matrix; I.machines_matrix
        check_views(ctx, inst, I, "views after the caller changed its own matrices")
        ctx.count("callers_matrices_changed_after_from_matrices")
    # views asked twice (cached) and after to_dict
    d = I.to_dict()
    check_views(ctx, inst, I, "views after to_dict")
    ctx.count("dict_round_trips")
    try:
        J = JobShopInstance.from_matrices(**d)
        same_instance(ctx, inst, J, name, meta, "from_matrices(**to_dict())")
        check_views(ctx, inst, J, "views of dict round trip")
        K = JobShopInstance.from_matrices(**json.loads(json.dumps(d, allow_nan=False)))
        same_instance(ctx, inst, K, name, meta, "through JSON")
    except Exception as e:
        ctx.violation("c14_instance_dict_round_trip_raised", {"error": repr(e)[:200]})
    if not gen.is_flexible(inst) and inst.get("cls") != "fractional":   # the text format holds integers
        ctx.count("taillard_round_trips")
        with tempfile.TemporaryDirectory(prefix="jsv-c14-") as td:
            fname = rng.choice(["abc.txt", "noext", "a.b.c"])
            path = os.path.join(td, fname)
            with open(path, "w", encoding="utf-8") as f:
                csym = rng.choice(["#", "#", "//", "%", "--", "REM"])
                f.write(taillard_text(inst, rng, csym))
            explicit = rng.random() < 0.5
            T = JobShopInstance.from_taillard_file(
                path, name="given" if explicit else None,
                **({} if csym == "#" else {"comment_symbol": csym}), **meta)
            same_instance(ctx, inst, T, "given" if explicit else fname.split(".")[0], meta, "taillard")
            check_views(ctx, inst, T, "views of taillard round trip")
    ctx.note_case(case, len(inst["durations"]) >= 2 and gen.num_ops(inst) >= 3,
                  fingerprint=str(hash(gen.fingerprint(inst))))
    ctx.count("class_" + inst["cls"])


class Budget(Exception):
    pass


def with_budget(limit, fn):
    """Runs fn() with a logical step budget on Dispatcher.dispatch /
    is_operation_ready (termination is decided on steps, not wall-clock)."""
    from job_shop_lib.dispatching import Dispatcher

    steps = [0]
    orig_d, orig_r = Dispatcher.dispatch, Dispatcher.is_operation_ready

    def dispatch(self, *a, **k):
        steps[0] += 1
        if steps[0] > limit:
            raise Budget()
        return orig_d(self, *a, **k)

    def ready(self, *a, **k):
        steps[0] += 1
        if steps[0] > limit:
            raise Budget()
        return orig_r(self, *a, **k)

    Dispatcher.dispatch, Dispatcher.is_operation_ready = dispatch, ready
    try:
        return fn()
    finally:
        Dispatcher.dispatch, Dispatcher.is_operation_ready = orig_d, orig_r


_KEPT_DECODED = []      # schedules decoded earlier in this process and still alive


def run_sequences(ctx, case):
    from job_shop_lib import Schedule
    from job_shop_lib.exceptions import ValidationError

    rng = random.Random(case["seed"])
    inst = case["instance"]
    run = Run(inst)
    # the instance carries its own metadata, different from the schedule's
    run.instance.metadata.update({"origin": "jsverif", "optimum": rng.randint(1, 99)})
    run.d.schedule.metadata.update({"who": "jsverif", "n": rng.randint(0, 9)})
    if case["seed"] % 3 == 0:
        # an earlier episode on the same dispatcher was serialised (logging) before the reset
        while not run.done():
            o, m = run.choose(rng, "random_ready")
            run.dispatch(o, m)
            if rng.random() < 0.3:
                run.d.schedule.to_dict()
        run.d.schedule.to_dict()
        run.d.reset(); run.r.reset()
        ctx.count("schedules_of_a_second_episode_after_a_serialised_first")
    while not run.done():
        o, m = run.choose(rng, rng.choice(["random_ready", "latest_start", "one_job_first"]))
        run.dispatch(o, m)
    S = run.d.schedule
    want = schedule_triples(S)
    seqs = [[so.job_id for so in lst] for lst in S.schedule]
    r = run.r
    budget = 20 * (r.num_ops + 2) * (r.num_machines + 2)
    ctx.count("schedule_round_trips")
    fp_before = content(run.instance)
    try:
        S2 = with_budget(budget, lambda: Schedule.from_job_sequences(run.instance, [list(s) for s in seqs]))
    except Exception as e:
        ctx.violation("c14_sequences_of_a_dispatcher_built_schedule_rejected",
                      {"sequences": seqs, "error": repr(e)[:200]})
        return
    if schedule_triples(S2) != want:
        ctx.violation("c14_from_job_sequences_differs", {"got": schedule_triples(S2), "want": want})
    d = S.to_dict()
    if d["job_sequences"] != seqs or d["metadata"] != S.metadata:
        ctx.violation("c14_schedule_to_dict", {"got": d["job_sequences"], "want": seqs})
    try:
        S3 = Schedule.from_dict(**d)
        _KEPT_DECODED.append(S3)         # earlier results stay referenced by their owner
        del _KEPT_DECODED[:-300]
        S4 = Schedule.from_dict(**json.loads(json.dumps(d)))
        S5 = Schedule.from_dict(run.instance, d["job_sequences"], d["metadata"])
    except Exception as e:
        ctx.violation("c14_schedule_dict_round_trip_raised", {"error": repr(e)[:200], "sequences": seqs})
        return
    for nm, s in (("from_dict(**to_dict())", S3), ("through JSON", S4), ("with instance object", S5)):
        if schedule_triples(s) != want or s.metadata != S.metadata:
            ctx.violation("c14_schedule_dict_round_trip_differs",
                          {"where": nm, "got": schedule_triples(s), "want": want,
                           "metadata": s.metadata})
        # the instance travels inside the schedule's dictionary: same operations, name, metadata
        if s.instance.name != run.instance.name or s.instance.metadata != run.instance.metadata \
                or [[(tuple(o.machines), o.duration) for o in j] for j in s.instance.jobs] != \
                [[(tuple(o.machines), o.duration) for o in j] for j in run.instance.jobs]:
            ctx.violation("c14_schedule_dict_round_trip_changed_the_instance",
                          {"where": nm, "name": [s.instance.name, run.instance.name],
                           "metadata": [s.instance.metadata, run.instance.metadata]})
    if content(run.instance) != fp_before:
        ctx.violation("c14_instance_modified", {"by": "from_job_sequences/from_dict"})
    if case["seed"] % 6 == 1 and inst.get("cls") != "fractional":
        # the same content with durations that arrived as numpy integers (read from an array):
        # dispatching and decoding give the same schedule
        import numpy as np
        from job_shop_lib import JobShopInstance, Operation
        npI = JobShopInstance([[Operation(list(ms), np.int64(dd)) for ms, dd in zip(mj, dj)]
                               for mj, dj in zip(inst["machines"], inst["durations"])], name="from an array")
        try:
            runN = Run(inst, instance=npI)
            for o, m in r.history:
                runN.dispatch(o, m)
            SN = Schedule.from_job_sequences(npI, [list(q) for q in seqs])
            SD = Schedule.from_dict(npI, [list(q) for q in seqs])
        except Exception as e:
            ctx.violation("c14_numpy_integer_durations_rejected", {"error": repr(e)[:200], "sequences": seqs})
        else:
            ctx.count("schedules_with_numpy_integer_durations")
            for nm, s in (("dispatcher-built", runN.d.schedule), ("from_job_sequences", SN), ("from_dict", SD)):
                got = [[(a, int(b), int(c)) for a, b, c in lst] for lst in schedule_triples(s)]
                if got != want:
                    ctx.violation("c14_schedule_with_numpy_integer_durations_differs",
                                  {"where": nm, "got": got, "want": want})
    # ------------------------------------------------------------ permutations
    for rep in range(3):
        ctx.count("permutation_sets")
        perm = [list(s) for s in seqs]
        mode = rng.choice(["shuffle", "swap", "swap", "reverse", "reverse", "valid"])
        if mode == "shuffle":
            for s in perm:
                rng.shuffle(s)
        elif mode == "reverse":
            for k in rng.sample(range(len(perm)), rng.randint(1, len(perm))):
                perm[k].reverse()
        elif mode == "swap":
            cand = [k for k, s in enumerate(perm) if len(set(s)) >= 2]
            if cand:
                for k in rng.sample(cand, rng.randint(1, min(2, len(cand)))):
                    s = perm[k]
                    a = rng.randrange(len(s))
                    bs = [b for b in range(len(s)) if s[b] != s[a]]
                    b = rng.choice(bs)
                    s[a], s[b] = s[b], s[a]
        acyc = sequences_acyclic(inst, perm)
        if acyc is None:
            continue
        try:
            res = with_budget(budget, lambda: Schedule.from_job_sequences(run.instance, [list(s) for s in perm]))
            accepted = True
        except ValidationError:
            accepted = False
        except Budget:
            ctx.violation("c14_from_job_sequences_exceeded_step_budget",
                          {"sequences": perm, "budget": budget})
            continue
        except Exception as e:
            ctx.violation("c14_from_job_sequences_wrong_exception",
                          {"sequences": perm, "error": repr(e), "acyclic": acyc})
            continue
        ctx.count("permutations_accepted" if accepted else "permutations_rejected")
        if accepted != acyc:
            ctx.violation("c14_accept_iff_acyclic",
                          {"sequences": perm, "accepted": accepted, "acyclic": acyc})
        elif accepted:
            tri = schedule_triples(res)
            errs = feasibility_errors(r, tri, require_complete=True)
            got_seqs = [[r.op_job[o] for o, _, _ in lst] for lst in tri]
            if errs or got_seqs != perm:
                ctx.violation("c14_accepted_sequences_give_bad_schedule",
                              {"sequences": perm, "errors": errs[:5], "got_sequences": got_seqs})
    ctx.note_case(case, len(inst["durations"]) >= 2 and gen.num_ops(inst) >= 3,
                  fingerprint=str(hash((gen.fingerprint(inst), tuple(r.history)))))
    ctx.count("class_" + inst["cls"])


def run_long_sequences(ctx, case):
    from job_shop_lib import Schedule
    inst = case["instance"]
    run = Run(inst)
    # job 1 first, then the long job from start to end
    for o in (run.r.job_ops[1][0],):
        run.dispatch(o, run.r.op_machines[o][0])
    for o in run.r.job_ops[0]:
        run.dispatch(o, run.r.op_machines[o][0])
    run.dispatch(run.r.job_ops[1][1], run.r.op_machines[run.r.job_ops[1][1]][0])
    S = run.d.schedule
    seqs = [[so.job_id for so in lst] for lst in S.schedule]
    try:
        S2 = Schedule.from_job_sequences(run.instance, [list(q) for q in seqs])
        S3 = Schedule.from_dict(**S.to_dict())
    except BaseException as e:       # RecursionError is not an Exception subclass to rely on
        if isinstance(e, (KeyboardInterrupt, SystemExit)):
            raise
        ctx.violation("c14_sequences_of_a_dispatcher_built_schedule_rejected",
                      {"error": repr(e)[:200], "operations_in_the_long_job": len(inst["durations"][0])})
        return
    ctx.count("schedule_round_trips")
    ctx.count("very_long_jobs_decoded")
    if schedule_triples(S2) != schedule_triples(S) or schedule_triples(S3) != schedule_triples(S):
        ctx.violation("c14_from_job_sequences_differs", {"operations": run.r.num_ops})
    ctx.note_case(case, True, fingerprint="long-sequences")


def run_immutability(ctx, case):
    rng = random.Random(case["seed"])
    inst = case["instance"]
    I = gen.build(inst)
    I.metadata["k"] = [1, 2]
    check_views(ctx, inst, I, "views before consumer")   # also populates every cached view
    before = content(I)
    who = case["consumer"]
    from job_shop_lib.dispatching.rules import DispatchingRuleSolver
    if who == 0:
        run = Run(inst, gen.gen_filter_spec(rng), instance=I)
        from .c05 import query_burst
        from job_shop_lib.dispatching import UnscheduledOperationsObserver
        mirror = UnscheduledOperationsObserver(run.d)
        while not run.done():
            query_burst(ctx, run, mirror, rng, 3, 8) if run.exact_filters and run.clock_exact else None
            o, m = run.choose(rng, "random_available"); run.dispatch(o, m)
        name = "dispatcher+filters+queries"
    elif who == 1:
        for rule in ["shortest_processing_time", "first_come_first_served", "most_work_remaining",
                     "most_operations_remaining", "random"]:
            DispatchingRuleSolver(rule, rng.choice(["first", "random"]))(I)
        name = "rule solvers"
    elif who == 2:
        name = "cp-sat"
        if not gen.is_flexible(inst):
            from job_shop_lib.constraint_programming import ORToolsSolver
            try:
                ORToolsSolver(max_time_in_seconds=5)(I)
            except Exception:
                pass  # C03's business
    elif who == 3:
        from . import _snap
        from job_shop_lib.dispatching import Dispatcher
        d = Dispatcher(I)
        _snap.full_observer_set(d)
        DispatchingRuleSolver("random", "random", None).solve(I, d)
        d.reset()
        name = "all observers + residual updater + reset"
    elif who == 4:
        from job_shop_lib.graphs import (build_disjunctive_graph, build_agent_task_graph,
                                         build_complete_agent_task_graph,
                                         build_agent_task_graph_with_jobs,
                                         build_solved_disjunctive_graph)
        for b in (build_disjunctive_graph, build_agent_task_graph,
                  build_complete_agent_task_graph, build_agent_task_graph_with_jobs):
            g = b(I)
            g.remove_node(0)
        build_solved_disjunctive_graph(DispatchingRuleSolver("random")(I))
        name = "graph builders"
    elif who == 5:
        from .c09 import make_env
        from job_shop_lib.dispatching import DispatcherObserverConfig
        from job_shop_lib.dispatching.feature_observers import FeatureObserverType
        from job_shop_lib.graphs import build_agent_task_graph
        from job_shop_lib.reinforcement_learning import SingleJobShopGraphEnv
        env = SingleJobShopGraphEnv(build_agent_task_graph(I),
                                    [DispatcherObserverConfig(FeatureObserverType.DURATION),
                                     DispatcherObserverConfig(FeatureObserverType.IS_COMPLETED)])
        for _ in range(2):
            env.reset(); done = False
            while not done:
                op = rng.choice(env.dispatcher.available_operations())
                _, _, done, _, _ = env.step((op.job_id, rng.choice(op.machines)))
        name = "environment (2 episodes)"
    else:
        import matplotlib.pyplot as plt
        from job_shop_lib.visualization import plot_gantt_chart
        S = DispatchingRuleSolver("random")(I)
        fig, _ = plot_gantt_chart(S)
        plt.close(fig)
        name = "plotting"
    ctx.count("immutability_checks")
    ctx.count("immutable_vs_" + name.split()[0])
    after = content(I)
    if after != before:
        ctx.violation("c14_instance_modified", {"by": name})
    # the cached derived views (arrays included) belong to the instance too
    nviol = len(ctx.violations) + sum(ctx.known_hits.values())
    check_views(ctx, inst, I, "views after consumer: " + name)
    if len(ctx.violations) + sum(ctx.known_hits.values()) != nviol:
        ctx.count("views_modified_by_consumer")
    ctx.note_case(case, True, fingerprint=str(hash((gen.fingerprint(inst), who))))


def run_benchmark_views(ctx, case):
    """Recorded benchmark instances: views, dict/JSON and Taillard round trips."""
    from job_shop_lib import JobShopInstance
    from job_shop_lib.benchmarking import load_benchmark_instance
    from ._dispatch_workload import inst_from_library
    I = load_benchmark_instance(case["name"])
    inst = inst_from_library(I)
    check_views(ctx, inst, I, "benchmark " + case["name"])
    d = json.loads(json.dumps(I.to_dict()))
    J = JobShopInstance.from_matrices(**d)
    same_instance(ctx, inst, J, I.name, I.metadata, "benchmark through JSON")
    ctx.count("dict_round_trips")
    with tempfile.TemporaryDirectory(prefix="jsv-c14b-") as td:
        path = os.path.join(td, case["name"] + ".txt")
        with open(path, "w", encoding="utf-8") as f:
            f.write(taillard_text(inst, random.Random(1)))
        T = JobShopInstance.from_taillard_file(path)
        same_instance(ctx, inst, T, case["name"], {}, "benchmark taillard")
        ctx.count("taillard_round_trips")
    ctx.count("benchmark_instances")
    ctx.note_case(case, True, fingerprint="bench:" + case["name"])


def run_case(ctx, case):
    {"views": run_views, "sequences": run_sequences, "immutability": run_immutability,
     "benchmark_views": run_benchmark_views, "long_sequences": run_long_sequences}[case["kind"]](ctx, case)
