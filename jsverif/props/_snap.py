"""Deep snapshots of dispatcher / observer / environment state (by value)."""

from __future__ import annotations

import numpy as np


def arr(a):
    a = np.asarray(a)
    return (str(a.dtype), a.shape, a.tobytes())


def graph_state(g):
    return (tuple(bool(x) for x in g.removed_nodes),
            tuple(sorted((u, v, str(data.get("type"))) for u, v, data in g.graph.edges(data=True))),
            tuple(sorted(g.graph.nodes())))


def observer_state(ob):
    """Public state of a built-in observer, by value."""
    name = type(ob).__name__
    st = {"type": name}
    if hasattr(ob, "features") and isinstance(getattr(ob, "features"), dict):
        st["features"] = {str(k.value if hasattr(k, "value") else k): arr(v)
                          for k, v in ob.features.items()}
    if hasattr(ob, "earliest_start_times"):
        a = np.asarray(ob.earliest_start_times, dtype=float)
        st["est_matrix"] = (a.shape, np.nan_to_num(a, nan=-12345.0).tobytes())
    if hasattr(ob, "remaining_ops_per_machine"):
        st["rem_m"] = np.asarray(ob.remaining_ops_per_machine).ravel().tolist()
        st["rem_j"] = np.asarray(ob.remaining_ops_per_job).ravel().tolist()
    if hasattr(ob, "rewards"):
        st["rewards"] = list(ob.rewards)
        if hasattr(ob, "current_makespan"):
            st["current_makespan"] = ob.current_makespan
    if hasattr(ob, "history"):
        st["history"] = [(so.operation.operation_id, so.start_time, so.machine_id)
                         for so in ob.history]
    if hasattr(ob, "unscheduled_operations_per_job"):
        st["unscheduled"] = [[o.operation_id for o in dq]
                             for dq in ob.unscheduled_operations_per_job]
    if hasattr(ob, "job_shop_graph"):
        st["graph"] = graph_state(ob.job_shop_graph)
    if hasattr(ob, "column_names"):
        st["columns"] = {str(k.value if hasattr(k, "value") else k): list(v)
                         for k, v in ob.column_names.items()}
    return st


def dispatcher_state(d, queries=True):
    st = {
        "schedule": [[(so.operation.operation_id, so.start_time, so.machine_id) for so in lst]
                     for lst in d.schedule.schedule],
        "m_next": list(d.machine_next_available_time),
        "j_next_t": list(d.job_next_available_time),
        "j_next_i": list(d.job_next_operation_index),
        "subscribers": [id(s) for s in d.subscribers],
        "configured_filter": id(d.ready_operations_filter),
        "metadata": dict(d.schedule.metadata),
    }
    if queries:
        st["q"] = {
            "now": d.current_time(),
            "avail": [o.operation_id for o in d.available_operations()],
            "ready": [o.operation_id for o in d.raw_ready_operations()],
            "unsched": sorted(o.operation_id for o in d.unscheduled_operations()),
            "sched": sorted(o.operation_id for o in d.scheduled_operations()),
            "ongoing": sorted(so.operation.operation_id for so in d.ongoing_operations()),
            "completed": sorted(o.operation_id for o in d.completed_operations()),
            "uncompleted": sorted(o.operation_id for o in d.uncompleted_operations()),
            "machines": sorted(d.available_machines()),
            "jobs": sorted(d.available_jobs()),
            "makespan": d.schedule.makespan(),
            "n": d.schedule.num_scheduled_operations,
        }
    st["observers"] = [observer_state(s) for s in d.subscribers]
    return st


def obs_state(obs):
    return {k: arr(v) for k, v in obs.items()}


def diff_keys(a, b, prefix=""):
    """Paths at which two snapshot structures differ."""
    out = []
    if isinstance(a, dict) and isinstance(b, dict):
        for k in sorted(set(a) | set(b), key=str):
            if k not in a or k not in b:
                out.append(f"{prefix}/{k} (missing)")
            else:
                out.extend(diff_keys(a[k], b[k], f"{prefix}/{k}"))
    elif isinstance(a, (list, tuple)) and isinstance(b, (list, tuple)) and len(a) == len(b) \
            and any(isinstance(x, (dict, list, tuple)) for x in a):
        for i, (x, y) in enumerate(zip(a, b)):
            out.extend(diff_keys(x, y, f"{prefix}[{i}]"))
    else:
        if a != b:
            out.append(prefix or "/")
    return out


def full_observer_set(d, graph_builder=None, rng=None, updater_kwargs=None):
    """Subscribes every built-in observer (+ a residual graph updater)."""
    from job_shop_lib.dispatching import HistoryObserver, UnscheduledOperationsObserver
    from job_shop_lib.dispatching.feature_observers import (
        CompositeFeatureObserver, DurationObserver, EarliestStartTimeObserver,
        IsCompletedObserver, IsReadyObserver, IsScheduledObserver,
        PositionInJobObserver, RemainingOperationsObserver)
    from job_shop_lib.reinforcement_learning import IdleTimeReward, MakespanReward
    from job_shop_lib.graphs.graph_updaters import ResidualGraphUpdater
    from job_shop_lib.graphs import build_agent_task_graph

    obs = []
    obs.append(HistoryObserver(d))
    obs.append(UnscheduledOperationsObserver(d))
    feats = []
    for cls in (IsReadyObserver, DurationObserver, IsScheduledObserver, PositionInJobObserver,
                RemainingOperationsObserver, IsCompletedObserver, EarliestStartTimeObserver):
        try:
            feats.append(cls(d))
        except ValueError:
            # known constructor defect of EarliestStartTimeObserver on ragged machines (C11)
            pass
    obs.extend(feats)
    obs.append(CompositeFeatureObserver(d, feature_observers=feats))
    obs.append(MakespanReward(d))
    obs.append(IdleTimeReward(d))
    builder = graph_builder or build_agent_task_graph
    obs.append(ResidualGraphUpdater(d, builder(d.instance), **(updater_kwargs or {})))
    return obs
