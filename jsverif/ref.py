"""Independent reference model of job-shop dispatching.

Works on plain integers/tuples taken from the generated instance description
(never on library objects), so it shares no code with job_shop_lib.  Operations
are identified by their dense job-major id.
"""

from __future__ import annotations

import itertools


class RefReject(Exception):
    """The reference model says the request is invalid."""


class Ref:
    def __init__(self, inst):
        self.op_job, self.op_pos, self.op_machines, self.op_dur = [], [], [], []
        self.job_ops = []
        oid = 0
        for j, (ds, mss) in enumerate(zip(inst["durations"], inst["machines"])):
            ids = []
            for p, (d, ms) in enumerate(zip(ds, mss)):
                self.op_job.append(j)
                self.op_pos.append(p)
                self.op_machines.append(tuple(ms))
                self.op_dur.append(d)
                ids.append(oid)
                oid += 1
            self.job_ops.append(ids)
        self.num_ops = oid
        self.num_jobs = len(self.job_ops)
        self.num_machines = 1 + max(m for ms in self.op_machines for m in ms)
        self.flexible = any(len(ms) > 1 for ms in self.op_machines)
        self.has_zero = any(d == 0 for d in self.op_dur)
        self.reset()

    # ------------------------------------------------------------- state
    def reset(self):
        self.history = []  # (op, machine)
        self.start = {}
        self.end = {}
        self.machine_of = {}
        self.machine_end = [0] * self.num_machines
        self.job_end = [0] * self.num_jobs
        self.job_next = [0] * self.num_jobs
        self.machine_seq = [[] for _ in range(self.num_machines)]

    def copy_state(self):
        return (
            tuple(self.job_next),
            tuple(self.machine_end),
            tuple(self.job_end),
        )

    def clone(self):
        r = object.__new__(Ref)
        r.__dict__.update(self.__dict__)
        r.history = list(self.history)
        r.start = dict(self.start)
        r.end = dict(self.end)
        r.machine_of = dict(self.machine_of)
        r.machine_end = list(self.machine_end)
        r.job_end = list(self.job_end)
        r.job_next = list(self.job_next)
        r.machine_seq = [list(s) for s in self.machine_seq]
        return r

    # ------------------------------------------------------------- queries
    def is_ready(self, op):
        return self.job_next[self.op_job[op]] == self.op_pos[op]

    def ready(self):
        return [
            self.job_ops[j][n]
            for j, n in enumerate(self.job_next)
            if n < len(self.job_ops[j])
        ]

    def scheduled(self):
        return [o for j, n in enumerate(self.job_next) for o in self.job_ops[j][:n]]

    def unscheduled(self):
        return [o for j, n in enumerate(self.job_next) for o in self.job_ops[j][n:]]

    def is_scheduled(self, op):
        return op in self.start

    def complete(self):
        return len(self.history) == self.num_ops

    def start_on(self, op, m):
        return max(self.machine_end[m], self.job_end[self.op_job[op]])

    def est(self, op):
        return max(
            min(self.machine_end[m] for m in self.op_machines[op]),
            self.job_end[self.op_job[op]],
        )

    def makespan(self):
        return max(self.end.values(), default=0)

    def min_start(self, ops):
        if not ops:
            return self.makespan()
        return min(self.start_on(o, m) for o in ops for m in self.op_machines[o])

    def ongoing(self, now):
        """scheduled operations not finished at `now` (end > now)."""
        return [o for o in self.start if self.end[o] > now]

    def completed(self, now):
        return [o for o in self.start if self.end[o] <= now]

    def idle_time(self):
        """Sum over machines of the gaps before each operation."""
        total = 0
        for seq in self.machine_seq:
            prev = 0
            for o in seq:
                total += self.start[o] - prev
                prev = self.end[o]
        return total

    # ------------------------------------------------------------- dispatch
    def apply(self, op, m):
        if not (0 <= op < self.num_ops) or not self.is_ready(op):
            raise RefReject("not ready")
        if m not in self.op_machines[op]:
            raise RefReject("machine not eligible")
        s = self.start_on(op, m)
        e = s + self.op_dur[op]
        j = self.op_job[op]
        self.start[op], self.end[op], self.machine_of[op] = s, e, m
        self.machine_end[m] = e
        self.job_end[j] = e
        self.job_next[j] += 1
        self.machine_seq[m].append(op)
        self.history.append((op, m))
        return s

    # ------------------------------------------------------------- filters
    # Criteria as documented (docstrings + property C07 wording).
    def f_non_idle_machines(self, ops):
        t = self.min_start(ops)
        busy = {
            m
            for m in range(self.num_machines)
            if any(self.end[o] > t for o in self.machine_seq[m])
        }
        return [o for o in ops if any(m not in busy for m in self.op_machines[o])]

    def f_non_immediate_operations(self, ops):
        t = self.min_start(ops)
        return [o for o in ops if self.est(o) == t]

    def f_non_immediate_machines(self, ops):
        t = self.min_start(ops)
        imm = {
            m for o in ops for m in self.op_machines[o] if self.start_on(o, m) == t
        }
        return [o for o in ops if any(m in imm for m in self.op_machines[o])]

    def dominated_criterion(self, ops):
        min_end = {}
        for o in ops:
            for m in self.op_machines[o]:
                e = self.start_on(o, m) + self.op_dur[o]
                if m not in min_end or e < min_end[m]:
                    min_end[m] = e
        return [
            o
            for o in ops
            if any(self.start_on(o, m) < min_end[m] for m in self.op_machines[o])
        ]

    def f_dominated_operations(self, ops):
        """Exact only for lists without zero durations; with a zero-duration
        operation in the list the documented shortcut applies (a single
        zero-duration operation is returned) - callers handle that case."""
        zeros = [o for o in ops if self.op_dur[o] == 0]
        if zeros:
            return [zeros[0]]
        return self.dominated_criterion(ops)

    # user-written filters used by the harness (gen.custom_filter)
    def f_custom_keep_last(self, ops):
        return ops[-1:]

    def f_custom_machine0(self, ops):
        keep = [o for o in ops if 0 in self.op_machines[o]]
        return keep or ops

    def f_custom_latest_start(self, ops):
        if not ops:
            return ops
        best = max(self.est(o) for o in ops)
        return [o for o in ops if self.est(o) == best]

    def f_custom_hold_last_job(self, ops):
        last = self.num_jobs - 1
        if not any(self.job_next[j] < len(self.job_ops[j]) for j in range(last)):
            return ops
        return [o for o in ops if self.op_job[o] != last]

    def apply_filters(self, names, ops):
        for n in names or []:
            ops = getattr(self, "f_" + n)(ops)
        return ops

    def available(self, names=None):
        return self.apply_filters(names, self.ready())

    def current_time(self, names=None):
        return self.min_start(self.available(names))

    # ------------------------------------------------------------- schedule view
    def triples(self):
        """per machine list of (op, start, machine)"""
        return [
            [(o, self.start[o], m) for o in seq]
            for m, seq in enumerate(self.machine_seq)
        ]


# ---------------------------------------------------------------------------
def feasibility_errors(ref_static: Ref, machine_lists, require_complete=False):
    """Independent feasibility check of a schedule given as, per machine
    index, a list of (op_id, start, machine_id).  Returns a list of strings."""
    errs = []
    seen = {}
    for idx, lst in enumerate(machine_lists):
        prev_end = None
        prev_start = None
        for op, s, m in lst:
            if op in seen:
                errs.append(f"operation {op} appears twice")
            seen[op] = (s, m)
            if m != idx:
                errs.append(f"op {op} with machine {m} listed under machine {idx}")
            if m not in ref_static.op_machines[op]:
                errs.append(f"op {op} on ineligible machine {m}")
            if s < 0:
                errs.append(f"op {op} negative start {s}")
            e = s + ref_static.op_dur[op]
            if prev_end is not None:
                if s < prev_end:
                    errs.append(
                        f"machine {idx}: op {op} starts {s} before previous end {prev_end}"
                    )
                if s < prev_start:
                    errs.append(f"machine {idx}: not in time order at op {op}")
            prev_end, prev_start = e, s
    if len(machine_lists) != ref_static.num_machines:
        errs.append(
            f"{len(machine_lists)} machine lists for {ref_static.num_machines} machines"
        )
    for j, ids in enumerate(ref_static.job_ops):
        sched = [o in seen for o in ids]
        # scheduled ops of a job form a prefix (no gap in positions)
        if any(b and not a for a, b in zip(sched, sched[1:])):
            errs.append(f"job {j}: gap in scheduled positions {sched}")
        prev_end = 0
        for o in ids:
            if o not in seen:
                break
            s = seen[o][0]
            if s < prev_end:
                errs.append(
                    f"job {j}: op {o} starts {s} before predecessor end {prev_end}"
                )
            prev_end = s + ref_static.op_dur[o]
    if require_complete and len(seen) != ref_static.num_ops:
        errs.append(f"incomplete: {len(seen)} of {ref_static.num_ops} operations")
    return errs


def schedule_triples(schedule):
    """Library Schedule -> per machine list of (op_id, start, machine_id)."""
    return [
        [(so.operation.operation_id, so.start_time, so.machine_id) for so in lst]
        for lst in schedule.schedule
    ]


# ---------------------------------------------------------------------------
def optimum(inst, node_limit=2_000_000):
    """Exact minimum makespan by exhaustive search over semi-active schedules
    (every order of ready operations, every eligible machine), memoised on the
    state and bounded by job-tail lower bounds.  Independent of the library.
    Returns (optimum, nodes) or (None, nodes) if the node limit was hit."""
    r = Ref(inst)
    tail = []
    for ids in r.job_ops:
        t, acc = [0] * (len(ids) + 1), 0
        for k in range(len(ids) - 1, -1, -1):
            acc += r.op_dur[ids[k]]
            t[k] = acc
        tail.append(t)
    best = [float("inf")]
    seen = {}
    nodes = [0]

    def lb():
        b = max(r.machine_end + [0])
        for j, n in enumerate(r.job_next):
            b = max(b, r.job_end[j] + tail[j][n])
        return b

    def rec():
        nodes[0] += 1
        if nodes[0] > node_limit:
            raise OverflowError
        if all(n == len(r.job_ops[j]) for j, n in enumerate(r.job_next)):
            best[0] = min(best[0], max(r.machine_end + r.job_end + [0]))
            return
        if lb() >= best[0]:
            return
        key = r.copy_state()
        if key in seen:
            return
        seen[key] = True
        for o in r.ready():
            j = r.op_job[o]
            for m in r.op_machines[o]:
                sm, sj, sn = r.machine_end[m], r.job_end[j], r.job_next[j]
                e = max(sm, sj) + r.op_dur[o]
                r.machine_end[m] = e
                r.job_end[j] = e
                r.job_next[j] += 1
                rec()
                r.machine_end[m], r.job_end[j], r.job_next[j] = sm, sj, sn

    try:
        rec()
    except OverflowError:
        return None, nodes[0]
    b = best[0]
    return (int(b) if float(b).is_integer() else b), nodes[0]


def lower_bounds(inst):
    r = Ref(inst)
    job_lb = max(sum(r.op_dur[o] for o in ids) for ids in r.job_ops)
    load = [0] * r.num_machines
    if not r.flexible:
        for o in range(r.num_ops):
            load[r.op_machines[o][0]] += r.op_dur[o]
    return max(job_lb, max(load))


# ---------------------------------------------------------------------------
def sequences_acyclic(inst, sequences):
    """Per-machine job sequences (non-flexible instance) admit a schedule iff
    the graph {job chain edges} + {consecutive entries on a machine} is
    acyclic, where the k-th occurrence of job j on machine m denotes the k-th
    operation of job j that runs on m.  Own Kahn topological sort."""
    r = Ref(inst)
    per = {}
    for o in range(r.num_ops):
        per.setdefault((r.op_machines[o][0], r.op_job[o]), []).append(o)
    succ = {o: set() for o in range(r.num_ops)}
    for ids in r.job_ops:
        for a, b in zip(ids, ids[1:]):
            succ[a].add(b)
    for m, seq in enumerate(sequences):
        cnt = {}
        ops = []
        for j in seq:
            k = cnt.get(j, 0)
            cnt[j] = k + 1
            lst = per.get((m, j), [])
            if k >= len(lst):
                return None  # not a permutation of the machine's operations
            ops.append(lst[k])
        for a, b in zip(ops, ops[1:]):
            succ[a].add(b)
        if sorted(ops) != sorted(
            o for o in range(r.num_ops) if r.op_machines[o][0] == m
        ):
            return None
    indeg = {o: 0 for o in succ}
    for a in succ:
        for b in succ[a]:
            indeg[b] += 1
    stack = [o for o, d in indeg.items() if d == 0]
    n = 0
    while stack:
        a = stack.pop()
        n += 1
        for b in succ[a]:
            indeg[b] -= 1
            if indeg[b] == 0:
                stack.append(b)
    return n == r.num_ops
