"""Classifiers for known findings (keyed by mechanism, never by hashes).

Each classifier takes (kind, witness) and returns True when the refuting
observation is *the same mechanism* as the listed finding.  Anything a
classifier does not reproduce exactly stays a VIOLATION.
"""

CLASSIFIERS = {}


def classifier(name):
    def deco(fn):
        CLASSIFIERS[name] = fn
        return fn
    return deco


@classifier("duration_observer_operation_value_frozen_at_dispatch")
def _duration_frozen(kind, w):
    """DurationObserver only writes an operation's remaining duration when that
    operation is dispatched (end - max(start, clock right after its own
    dispatch)) and never refreshes it while the clock advances.  Executable
    model: the observed value must equal exactly that frozen value, the
    operation must be scheduled and not yet completed, and the correct value
    must differ."""
    if kind != "c11_feature_differs_from_definition":
        return False
    x = w.get("witness", {})
    if x.get("observer") != "DurationObserver" or x.get("feature") != "operations":
        return False
    if "frozen_model_value" not in x or x.get("op_end") is None:
        return False
    scheduled_not_completed = x["op_end"] > x["now"]
    return (scheduled_not_completed and x["got"] == x["frozen_model_value"]
            and x["got"] != x["want"])


@classifier("multi_env_padding_overflow_non_classic_generator")
def _multi_env_padding_overflow(kind, w):
    """MultiJobShopGraphEnv sizes its observation space from ONE instance drawn
    with the maximum numbers of jobs and machines.  With generators whose
    graph size is not a function of (jobs, machines) alone - recirculation or a
    variable number of machines per operation - a later instance can have more
    edges / nodes, and reset()/step() raises add_padding's ValidationError.
    Matches only: that exact error, raised from add_padding, for a generator
    that is not classic."""
    if kind not in ("c18_multi_env_reset_raised", "c18_multi_env_step_raised"):
        return False
    x = w.get("witness", {})
    g = x.get("generator", {})
    mpo = g.get("machines_per_operation", 1)
    non_classic = bool(g.get("allow_recirculation")) or (
        (max(mpo) if isinstance(mpo, (list, tuple)) else mpo) > 1)
    return (non_classic and x.get("from_add_padding") is True
            and str(x.get("error", "")).startswith(
                "Output shape must be greater than the input shape."))
