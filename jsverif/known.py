"""Classifiers for known findings (keyed by mechanism, never by hashes).

Each classifier takes (kind, witness) and returns True when the refuting
observation is *the same mechanism* as the listed finding.  Anything a
classifier does not reproduce exactly stays a VIOLATION.
"""

CLASSIFIERS = {}


def classifier(name):
    def deco(fn):
        CLASSIFIERS[name] = fn
        return fn
    return deco
