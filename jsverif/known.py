"""Classifiers for known findings (keyed by mechanism, never by hashes).

Each classifier takes (kind, witness) and returns True when the refuting
observation is *the same mechanism* as the listed finding.  Anything a
classifier does not reproduce exactly stays a VIOLATION.
"""

CLASSIFIERS = {}


def classifier(name):
    def deco(fn):
        CLASSIFIERS[name] = fn
        return fn
    return deco


@classifier("duration_observer_operation_value_frozen_at_dispatch")
def _duration_frozen(kind, w):
    """DurationObserver only writes an operation's remaining duration when that
    operation is dispatched (end - max(start, clock right after its own
    dispatch)) and never refreshes it while the clock advances.  Executable
    model: the observed value must equal exactly that frozen value, the
    operation must be scheduled and not yet completed, and the correct value
    must differ."""
    if kind != "c11_feature_differs_from_definition":
        return False
    x = w.get("witness", {})
    if x.get("observer") != "DurationObserver" or x.get("feature") != "operations":
        return False
    if "frozen_model_value" not in x or x.get("op_end") is None:
        return False
    scheduled_not_completed = x["op_end"] > x["now"]
    return (scheduled_not_completed and x["got"] == x["frozen_model_value"]
            and x["got"] != x["want"])
