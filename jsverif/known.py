"""Classifiers for known findings (keyed by mechanism, never by hashes).

Each classifier takes (kind, witness) and returns True when the refuting
observation is *the same mechanism* as the listed finding.  Anything a
classifier does not reproduce exactly stays a VIOLATION.
"""

CLASSIFIERS = {}


def classifier(name):
    def deco(fn):
        CLASSIFIERS[name] = fn
        return fn
    return deco


@classifier("duration_observer_operation_value_frozen_at_dispatch")
def _duration_frozen(kind, w):
    """DurationObserver only writes an operation's remaining duration when that
    operation is dispatched (end - max(start, clock right after its own
    dispatch)) and never refreshes it while the clock advances.  Executable
    model: the observed value must equal exactly that frozen value, the
    operation must be scheduled and not yet completed, and the correct value
    must differ."""
    if kind != "c11_feature_differs_from_definition":
        return False
    x = w.get("witness", {})
    if x.get("observer") != "DurationObserver" or x.get("feature") != "operations":
        return False
    if "frozen_model_value" not in x or x.get("op_end") is None:
        return False
    scheduled_not_completed = x["op_end"] > x["now"]
    return (scheduled_not_completed and x["got"] == x["frozen_model_value"]
            and x["got"] != x["want"])


@classifier("multi_env_padding_overflow_non_classic_generator")
def _multi_env_padding_overflow(kind, w):
    """MultiJobShopGraphEnv sizes its observation space from ONE instance drawn
    with the maximum numbers of jobs and machines.  With generators whose
    graph size is not a function of (jobs, machines) alone - recirculation or a
    variable number of machines per operation - a later instance can have more
    edges / nodes, and reset()/step() raises add_padding's ValidationError.
    Matches only: that exact error, raised from add_padding, for a generator
    that is not classic, AND only when the graphs *as their builders define
    them* (independent reference definition, shared with C16) really are
    larger for the episode's instance than for the sample the shapes were
    taken from - in nodes, edges, operations, jobs or machines.  An overflow
    for an instance whose correctly built graph fits the sample's is another
    defect and stays a violation."""
    if kind not in ("c18_multi_env_reset_raised", "c18_multi_env_step_raised"):
        return False
    x = w.get("witness", {})
    g = x.get("generator", {})
    mpo = g.get("machines_per_operation", 1)
    non_classic = bool(g.get("allow_recirculation")) or (
        (max(mpo) if isinstance(mpo, (list, tuple)) else mpo) > 1)
    if not (non_classic and x.get("from_add_padding") is True
            and str(x.get("error", "")).startswith(
                "Output shape must be greater than the input shape.")):
        return False
    if not x.get("template_instance") or not x.get("episode_instance"):
        return False
    return _graph_dimensions(x["episode_instance"], x["builder"]) > \
        _graph_dimensions(x["template_instance"], x["builder"])


class _Dims(tuple):
    """(nodes, edges, operations, jobs, machines); a > b iff some component is larger."""
    def __gt__(self, other):
        return any(p > q for p, q in zip(self, other))


def _graph_dimensions(inst, builder):
    from .props.c16 import spec
    from .ref import Ref
    r = Ref(inst)
    nodes, edges = spec(r, builder)
    return _Dims((len(nodes), len(edges), r.num_ops, r.num_jobs, r.num_machines))


def _float32_mwkr_model(inst, history, available, created_at=0):
    """Executable model of the observer-based most-work-remaining rule: job work
    is held in a float32 DurationObserver column (initial job sum cast to
    float32, each dispatched duration subtracted and re-rounded to float32);
    the rule returns the first available operation with the largest value."""
    import numpy as np

    durations = inst["durations"]
    flat = []
    for j, job in enumerate(durations):
        for p, d in enumerate(job):
            flat.append((j, d))
    # the observer is created after `created_at` dispatches: it starts from the float32 cast
    # of the work still unscheduled at that moment
    before = {o for o, _ in history[:created_at]}
    rem = [np.float32(sum(d for k, (jj, d) in enumerate(flat) if jj == j and k not in before))
           for j in range(len(durations))]
    for o, _m in history[created_at:]:
        j, d = flat[o]
        arr = np.array([[rem[j]]], dtype=np.float32)
        arr[0, 0] -= d
        rem[j] = arr[0, 0]
    best, best_v = None, None
    for o in available:
        v = rem[flat[o][0]]
        if best is None or v > best_v:
            best, best_v = o, v
    exact = {}
    done = {o for o, _ in history}
    for o in available:
        j = flat[o][0]
        exact[o] = sum(d for k, (jj, d) in enumerate(flat) if jj == j and k not in done)
    return best, exact


@classifier("observer_mwkr_float32_resolution")
def _observer_mwkr_float32(kind, w):
    """The observer-based MWKR rule differs from the exact rule only through
    float32 rounding of job work sums beyond 2**24: the selection must be
    exactly what the float32 model selects, the exact rule must prefer another
    operation, and the instance must contain such large time values."""
    x = w.get("witness", {})
    case = w.get("case") or {}
    inst = case.get("instance") or {}
    if "durations" not in inst:
        return False
    if max(sum(job) for job in inst["durations"]) <= 2 ** 24:
        return False
    if kind == "c04_direct_and_observer_mwkr_differ":
        available = x.get("available")
        selected = x.get("observer")
    elif kind == "c04_selection_not_best_under_rule" and (x.get("rule") or {}).get("type") == "observer_mwkr":
        available = x.get("available")
        selected = x.get("selected")
    else:
        return False
    if available is None:
        return False
    model_choice, exact = _float32_mwkr_model(inst, x.get("history", []), available,
                                              int(x.get("observer_created_at", 0)))
    if model_choice != selected:
        return False
    if kind == "c04_direct_and_observer_mwkr_differ":
        # the exact rule returns the first available operation with the largest exact value
        first_best = next(o for o in available if exact[o] == max(exact.values()))
        return x.get("direct") == first_best and selected != first_best
    return exact[selected] != max(exact.values())
