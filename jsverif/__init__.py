"""jsverif - runtime monitoring of job_shop_lib against /verif/properties.jsonl."""
