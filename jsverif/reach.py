"""Reachability: count executions of the functions a property is anchored in.

Uses sys.monitoring (PEP 669) PY_START events restricted to the code objects of
the anchored functions (set_local_events), so the overhead is limited to those
functions.  An anchored function with zero hits makes the run inconclusive.
"""

from __future__ import annotations

import importlib
import sys
from collections import Counter

TOOL_ID = 4  # free id (0..5); 0-2 are reserved by convention for dbg/cov/prof


def _resolve(spec: str):
    """'pkg.mod:Qual.name' -> list of code objects."""
    modname, qual = spec.split(":")
    obj = importlib.import_module(modname)
    for part in qual.split("."):
        if part == "<locals>":
            continue
        obj = getattr(obj, part) if not isinstance(obj, dict) else obj[part]
    if isinstance(obj, property):
        obj = obj.fget
    if isinstance(obj, (staticmethod, classmethod)):
        obj = obj.__func__
    # unwrap decorators (functools.wraps) AND harness wrappers
    seen = []
    while obj is not None:
        code = getattr(obj, "__code__", None)
        if code is not None:
            seen.append(code)
        obj = getattr(obj, "__wrapped__", None)
    return seen


class Tracker:
    def __init__(self, anchors):
        self.anchors = list(anchors)
        self.counts = Counter()
        self.code_to_name = {}
        self.codes_of = {}
        self.unresolved = []
        self.active = False

    def start(self):
        if not self.anchors or not hasattr(sys, "monitoring"):
            return
        mon = sys.monitoring
        self.unresolved = []
        for spec in self.anchors:
            try:
                codes = _resolve(spec)
            except Exception:
                # the anchored function was renamed / moved by a refactor: not an error of
                # the run; it is reported and left out of the reach verdict
                self.unresolved.append(spec)
                continue
            self.codes_of[spec] = codes
            for code in codes:
                self.code_to_name[code] = spec
        try:
            mon.use_tool_id(TOOL_ID, "jsverif-reach")
        except ValueError:
            return
        self.active = True

        def on_start(code, offset):
            if code in self.code_to_name:
                self.counts[code] += 1

        mon.register_callback(TOOL_ID, mon.events.PY_START, on_start)
        for code in self.code_to_name:
            mon.set_local_events(TOOL_ID, code, mon.events.PY_START)

    def stop(self):
        if not self.active:
            return
        mon = sys.monitoring
        for code in self.code_to_name:
            mon.set_local_events(TOOL_ID, code, 0)
        mon.register_callback(TOOL_ID, mon.events.PY_START, None)
        mon.free_tool_id(TOOL_ID)
        self.active = False

    def hits(self):
        # two anchors may resolve to the same code object (a method that a refactor moved to a
        # common base class): each of them is reached when that code ran
        unresolved = set(getattr(self, "unresolved", []))
        return {a: sum(self.counts.get(c, 0) for c in self.codes_of.get(a, []))
                for a in self.anchors if a not in unresolved}
