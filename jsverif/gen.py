"""Seeded generators: instances (as plain matrices), filter configurations,
history policies.  Everything returned is JSON-serialisable."""

from __future__ import annotations

import random

INSTANCE_CLASSES = [
    "classic",
    "irregular",
    "recirc",
    "flexible",
    "zero",
    "gap",
    "degenerate",
    "library",
    "huge",
]
NONFLEX_CLASSES = ["classic", "irregular", "recirc", "zero_nf", "gap", "degenerate", "huge_nf"]
POSITIVE_CLASSES = ["classic", "irregular", "recirc", "flexible", "gap", "degenerate", "library", "huge"]
# classes whose values are exactly representable in float32 (feature arrays are float32 by design)
FLOAT32_EXACT = [c for c in INSTANCE_CLASSES if c != "huge"]
FLOAT32_EXACT_POSITIVE = [c for c in POSITIVE_CLASSES if c != "huge"]

HUGE_EXPONENTS = [24, 24, 25, 26, 30, 31, 33, 40]

FILTER_NAMES = [
    "dominated_operations",
    "non_immediate_machines",
    "non_idle_machines",
    "non_immediate_operations",
]


# share of the generated instances that are "wide": 8-14 jobs on 8-13 machines (two-digit ids,
# ~100 operations).  A property module that cannot afford such cases sets this to 0.
WIDE_RATE = 0.03
_DUR_MODE = ["normal"]


def _dur(rng, small):
    mode = _DUR_MODE[0]
    if mode == "equal":
        return 3
    if mode == "hundreds":
        return rng.randint(100, 999)
    if mode == "thousands":
        return rng.choice([1000, 1000, 2500, rng.randint(1000, 5000)])
    return rng.randint(1, 4) if small else rng.randint(1, 60)


def gen_instance(rng: random.Random, cls=None, max_jobs=4, max_machines=4, max_ops=None):
    """Returns {"cls", "durations": [[int]], "machines": [[[int]]]}.

    max_ops bounds the total number of operations (for exhaustive trees)."""
    if cls is None:
        cls = rng.choice(INSTANCE_CLASSES)
    _DUR_MODE[0] = "normal"
    if cls in ("classic", "irregular", "recirc", "flexible", "gap", "zero", "zero_nf"):
        # duration scales: everything equal (ties everywhere), three- and four-digit values
        _DUR_MODE[0] = rng.choice(["normal"] * 9 + ["equal", "hundreds", "thousands"])
        if max_ops is None and WIDE_RATE and rng.random() < WIDE_RATE:
            max_jobs, max_machines = rng.choice([8, 10, 12, 13, 14]), rng.choice([8, 10, 11, 12, 13])
            cls_w = True
        else:
            cls_w = False
    else:
        cls_w = False
    small = rng.random() < 0.7
    base = cls
    zero = False
    huge = False
    if cls in ("huge", "huge_nf"):
        # time values beyond 2**24 (not representable in float32), odd offsets
        huge = True
        base = rng.choice(["classic", "irregular", "recirc"]
                          + ([] if cls == "huge_nf" else ["flexible", "flexible"]))
    if cls == "fractional":
        base = rng.choice(["classic", "irregular", "recirc", "flexible"])
    if cls in ("zero", "zero_nf"):
        zero = True
        base = rng.choice(
            ["classic", "irregular", "recirc", "gap"]
            + ([] if cls == "zero_nf" else ["flexible", "flexible"])
        )
    if base == "library":
        inst = _library_instance(rng, max_jobs, max_machines)
    elif base == "degenerate":
        inst = _degenerate(rng, max_jobs, max_machines, small)
    else:
        nj = rng.randint(1, max_jobs)
        nm = rng.randint(1, max_machines)
        if base in ("classic",):
            nj = rng.randint(2, max(2, max_jobs))
            nm = rng.randint(2, max(2, max_machines))
        if cls_w:
            nj, nm = max_jobs, max_machines
        durations, machines = [], []
        if base == "gap":
            nm = rng.randint(3, max(3, max_machines))
            # one machine id below the maximum is never used
            unused = rng.randrange(0, nm - 1)
            pool = [m for m in range(nm) if m != unused]
        else:
            pool = list(range(nm))
        for _ in range(nj):
            if base == "classic":
                order = pool[:]
                rng.shuffle(order)
                ms = [[m] for m in order]
            elif base in ("irregular", "gap"):
                k = rng.randint(1, max(1, len(pool) + 1))
                ms = [[rng.choice(pool)] for _ in range(k)]
            elif base == "recirc":
                k = rng.randint(2, max(2, len(pool) + 2))
                ms = []
                for _ in range(k):
                    if ms and rng.random() < 0.35:
                        ms.append(list(ms[-1]))  # same machine twice in a row
                    else:
                        ms.append([rng.choice(pool)])
            elif base == "flexible":
                k = rng.randint(1, max(1, len(pool) + 1))
                ms = []
                for _ in range(k):
                    r = rng.randint(1, len(pool))
                    ms.append(rng.sample(pool, r))
            else:
                raise ValueError(base)
            machines.append(ms)
            durations.append([_dur(rng, small) for _ in ms])
        if base == "gap":
            # make sure the highest id is used so that num_machines == nm
            j = rng.randrange(len(machines))
            p = rng.randrange(len(machines[j]))
            machines[j][p] = [nm - 1]
        if base == "flexible" and all(
            len(m) == 1 for job in machines for m in job
        ):
            machines[0][0] = list(range(max(2, nm)))[: max(2, nm)]
        inst = {"durations": durations, "machines": machines}
    if zero:
        mode = rng.random()
        for job in inst["durations"]:
            for p in range(len(job)):
                if mode < 0.15:
                    job[p] = 0
                elif rng.random() < 0.4:
                    job[p] = 0
    if cls == "fractional":
        for job in inst["durations"]:
            for p in range(len(job)):
                job[p] = rng.choice([0.25, 0.5, 0.75, 1.5, 2.5, 3.25, 1.0, 2.0])
    if huge:
        # beyond float32 (2**24), beyond int32 (2**31; a few operations of 2**30 add up to it),
        # where a relative tolerance of 1e-9 swallows a difference of 1 (2**33, 2**40); a module
        # may add 2**53 / 2**54 (beyond float64) through HUGE_EXPONENTS
        big = 2 ** rng.choice(HUGE_EXPONENTS)
        for job in inst["durations"]:
            for p in range(len(job)):
                job[p] = big + rng.randint(0, 120) if rng.random() < 0.7 else rng.randint(1, 60)
        if rng.random() < 0.5:
            # some operations of duration 1 (or 2) next to the very long ones
            j = rng.randrange(len(inst["durations"]))
            inst["durations"][j][rng.randrange(len(inst["durations"][j]))] = rng.choice([1, 1, 2])
    inst["cls"] = cls
    _DUR_MODE[0] = "normal"
    if max_ops is not None:
        _trim(inst, max_ops)
    return inst


def long_instance(rng, n=None):
    """One job with more than 256 operations (8-bit counters would wrap) next to a short one; two
    or three machines, so one machine carries more than 100 operations as well."""
    n = n or rng.choice([257, 260, 300])
    nm = rng.choice([2, 3])
    return {"cls": "long",
            "durations": [[rng.randint(1, 3) for _ in range(n)], [2, 1]],
            "machines": [[[rng.randrange(nm)] for _ in range(n)], [[nm - 1], [0]]]}


def _trim(inst, max_ops):
    total = sum(len(j) for j in inst["durations"])
    while total > max_ops:
        # drop the last op of the longest job (keep at least one op per job)
        j = max(range(len(inst["durations"])), key=lambda i: len(inst["durations"][i]))
        if len(inst["durations"][j]) <= 1:
            inst["durations"].pop()
            inst["machines"].pop()
        else:
            inst["durations"][j].pop()
            inst["machines"][j].pop()
        total = sum(len(j) for j in inst["durations"])


def _degenerate(rng, max_jobs, max_machines, small):
    kind = rng.choice(["1x1", "1job", "1op_each", "1machine"])
    if kind == "1x1":
        return {"durations": [[_dur(rng, small)]], "machines": [[[0]]]}
    if kind == "1job":
        k = rng.randint(2, 5)
        return {
            "durations": [[_dur(rng, small) for _ in range(k)]],
            "machines": [[[rng.randrange(max_machines)] for _ in range(k)]],
        }
    if kind == "1op_each":
        nj = rng.randint(2, max(2, max_jobs))
        return {
            "durations": [[_dur(rng, small)] for _ in range(nj)],
            "machines": [[[rng.randrange(max_machines)]] for _ in range(nj)],
        }
    nj = rng.randint(2, max(2, max_jobs))
    durations = [
        [_dur(rng, small) for _ in range(rng.randint(1, 3))] for _ in range(nj)
    ]
    return {
        "durations": durations,
        "machines": [[[0] for _ in job] for job in durations],
    }


def _library_instance(rng, max_jobs, max_machines):
    """Instance drawn by the library's own generator (generator x consumer)."""
    from job_shop_lib.generation import GeneralInstanceGenerator

    state = random.getstate()
    try:
        nj = rng.randint(1, max_jobs)
        nm = rng.randint(1, max_machines)
        mpo = 1 if rng.random() < 0.6 else (1, max(1, min(nm, 3)))
        g = GeneralInstanceGenerator(
            num_jobs=nj,
            num_machines=nm,
            duration_range=(1, rng.choice([3, 9, 50])),
            allow_recirculation=rng.random() < 0.4,
            machines_per_operation=mpo,
            seed=rng.randrange(10**6),
        )
        inst = g.generate()
    finally:
        random.setstate(state)
    return {
        "durations": [[op.duration for op in job] for job in inst.jobs],
        "machines": [[list(op.machines) for op in job] for job in inst.jobs],
    }


def build(inst, name="verif"):
    """Builds the real JobShopInstance from a generated description.  For a share of the
    instances (deterministic in the content) the instance is assembled by hand from Operation
    objects that already carry job/position/id attributes of another, discarded instance with a
    different job order - the constructor has to re-number them."""
    from job_shop_lib import JobShopInstance

    nj = len(inst["durations"])
    if nj >= 4 and (sum(map(len, inst["durations"])) + nj) % 5 == 0:
        # another discarded layout: only two middle jobs swapped, so the first and the last
        # operation already carry the ids they will get
        order = list(range(nj)); order[1], order[2] = order[2], order[1]
        tmp = JobShopInstance.from_matrices(
            [list(inst["durations"][j]) for j in order],
            [[list(m) for m in inst["machines"][j]] for j in order], name="discarded")
        jobs = [None] * nj
        for pos, j in enumerate(order):
            jobs[j] = tmp.jobs[pos]
        del tmp
        return JobShopInstance(jobs, name=name)
    if nj >= 2 and (sum(map(len, inst["durations"])) * 7 + nj + int(sum(map(sum, inst["durations"])))) % 6 == 0:
        rot = [(j + 1) % nj for j in range(nj)]          # other job order
        tmp = JobShopInstance.from_matrices(
            [list(inst["durations"][j]) for j in rot],
            [[list(m) for m in inst["machines"][j]] for j in rot], name="discarded")
        jobs = [None] * nj
        for pos, j in enumerate(rot):
            jobs[j] = tmp.jobs[pos]
        del tmp
        return JobShopInstance(jobs, name=name)
    if nj >= 2 and (sum(map(len, inst["durations"])) * 3 + nj * 5
                    + int(sum(map(sum, inst["durations"])))) % 7 == 0:
        # third discarded layout: the same operations in the same flat order but with other job
        # boundaries (the first two jobs were one job), so every operation id is already right
        # while job ids / positions are not
        merged_d = [list(inst["durations"][0]) + list(inst["durations"][1])] + \
            [list(j) for j in inst["durations"][2:]]
        merged_m = [[list(m) for m in inst["machines"][0]] + [list(m) for m in inst["machines"][1]]] + \
            [[list(m) for m in j] for j in inst["machines"][2:]]
        tmp = JobShopInstance.from_matrices(merged_d, merged_m, name="discarded")
        n0 = len(inst["durations"][0])
        jobs = [tmp.jobs[0][:n0], tmp.jobs[0][n0:]] + [list(j) for j in tmp.jobs[1:]]
        del tmp
        return JobShopInstance(jobs, name=name)
    return JobShopInstance.from_matrices(
        [list(j) for j in inst["durations"]],
        [[list(m) for m in j] for j in inst["machines"]],
        name=name,
    )


def has_zero(inst):
    return any(d == 0 for job in inst["durations"] for d in job)


def is_flexible(inst):
    return any(len(m) > 1 for job in inst["machines"] for m in job)


def num_ops(inst):
    return sum(len(j) for j in inst["durations"])


def fingerprint(inst):
    return (
        tuple(tuple(j) for j in inst["durations"]),
        tuple(tuple(tuple(m) for m in j) for j in inst["machines"]),
    )


def competing(inst):
    """Non-triviality: at least two jobs can use a common machine."""
    seen = {}
    for j, job in enumerate(inst["machines"]):
        for ms in job:
            for m in ms:
                seen.setdefault(m, set()).add(j)
    return any(len(s) >= 2 for s in seen.values())


# ------------------------------------------------------------------ filters
def gen_filter_spec(rng, allow_none=True):
    """A filter configuration: None or a list of built-in names (composition,
    with repetition, any order).  'form' says how the harness should obtain the
    callable: function / string / enum / composite."""
    r = rng.random()
    if allow_none and r < 0.2:
        return None
    if r < 0.55:
        names = [rng.choice(FILTER_NAMES)]
    elif r < 0.7:
        names = ["dominated_operations", "non_idle_machines"]  # solver default
    else:
        names = [rng.choice(FILTER_NAMES) for _ in range(rng.randint(2, 4))]
    form = rng.choice(["function", "string", "enum", "composite", "factory"])
    return {"names": names, "form": form}


CUSTOM_FILTERS = ["custom_keep_last", "custom_machine0", "custom_latest_start"]
HOLDING_FILTER = "custom_hold_last_job"  # only where an empty available list is expected


def custom_filter(name):
    """User-written filters (plain callables), defined on public attributes only;
    the reference model mirrors them in Ref.f_custom_*."""
    if name == "custom_keep_last":
        return lambda dispatcher, operations: operations[-1:]
    if name == "custom_machine0":
        def machine0(dispatcher, operations):
            keep = [op for op in operations if 0 in op.machines]
            return keep or operations
        return machine0
    if name == "custom_latest_start":
        def latest(dispatcher, operations):
            if not operations:
                return operations
            best = max(dispatcher.earliest_start_time(op) for op in operations)
            return [op for op in operations if dispatcher.earliest_start_time(op) == best]
        return latest
    if name == HOLDING_FILTER:
        # may legitimately answer [] (also for a single candidate): the last job is held back
        # until every other job is finished
        def hold_last_job(dispatcher, operations):
            last = dispatcher.instance.num_jobs - 1
            others_left = any(
                dispatcher.job_next_operation_index[j] < len(dispatcher.instance.jobs[j])
                for j in range(last))
            if not others_left:
                return operations
            return [op for op in operations if op.job_id != last]
        return hold_last_job
    raise ValueError(name)


class FilterFailure(RuntimeError):
    """raised once by a user filter (a time-out, a lost connection, ...): the caller catches it
    and goes on with the same objects"""


class Flaky:
    """A user-written wrapper around a filter that fails once when it is armed (the harness arms
    it right before one chosen call; see `fail_once`)."""

    def __init__(self, inner):
        self.inner = inner
        self.armed = False
        self.failures = 0

    def __call__(self, dispatcher, operations):
        if self.armed:
            self.armed = False
            self.failures += 1
            raise FilterFailure("user filter failed once")
        return self.inner(dispatcher, operations)


def fail_once(d, call):
    """Makes the dispatcher's (flaky) filter fail during `call()` if the call reaches it; the
    failure is swallowed as a caller would.  Returns True if a failure happened."""
    f = d.ready_operations_filter
    if not isinstance(f, Flaky):
        return False
    before = f.failures
    f.armed = True
    try:
        call()
    except FilterFailure:
        pass
    finally:
        f.armed = False
    return f.failures > before


def make_filter(spec):
    """Builds the real filter callable for a spec."""
    if spec is None:
        return None
    if spec.get("flaky"):
        inner = make_filter({k: v for k, v in spec.items() if k != "flaky"})
        return Flaky(inner)
    if any(n.startswith("custom_") for n in spec["names"]):
        from job_shop_lib.dispatching import create_composite_operation_filter
        fs = [custom_filter(n) if n.startswith("custom_") else n for n in spec["names"]]
        return fs[0] if len(fs) == 1 else create_composite_operation_filter(fs)
    from job_shop_lib.dispatching import (
        ReadyOperationsFilterType,
        create_composite_operation_filter,
        filter_dominated_operations,
        filter_non_idle_machines,
        filter_non_immediate_machines,
        filter_non_immediate_operations,
        ready_operations_filter_factory,
    )

    funcs = {
        "dominated_operations": filter_dominated_operations,
        "non_immediate_machines": filter_non_immediate_machines,
        "non_idle_machines": filter_non_idle_machines,
        "non_immediate_operations": filter_non_immediate_operations,
    }
    names, form = spec["names"], spec["form"]
    if len(names) == 1 and form == "function":
        return funcs[names[0]]
    if len(names) == 1 and form == "factory":
        return ready_operations_filter_factory(names[0])
    if len(names) == 1 and form == "enum":
        return ready_operations_filter_factory(ReadyOperationsFilterType(names[0]))
    if form == "string":
        items = list(names)
    elif form == "enum":
        items = [ReadyOperationsFilterType(n) for n in names]
    elif form == "function":
        items = [funcs[n] for n in names]
    else:  # mixed
        items = []
        for i, n in enumerate(names):
            items.append([n, ReadyOperationsFilterType(n), funcs[n]][i % 3])
    # the factory takes any iterable: a list, a tuple, a one-shot generator or map object
    # (chosen deterministically from the spec, so that a case replays)
    shape = (len(names) + len(form) + sum(map(len, names))) % 5
    if shape == 1:
        items = tuple(items)
    elif shape == 2:
        items = (x for x in items)
    elif shape == 3:
        items = map(lambda x: x, items)
    return create_composite_operation_filter(items)


POLICIES = [
    "random_ready",
    "random_available",
    "one_job_first",
    "round_robin",
    "latest_start",
    "last_machine",
    "earliest_start",
]
