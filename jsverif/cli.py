"""./check <Cxx> [--tier quick|thorough] [--replay file] [--shard i/n --partial-out f]"""

from __future__ import annotations

import argparse
import importlib
import json
import os
import subprocess
import sys
import tempfile
import time
from pathlib import Path

from . import core


def load(pid):
    return importlib.import_module(f"jsverif.props.{pid.lower()}")


def main(argv=None):
    ap = argparse.ArgumentParser()
    ap.add_argument("pid")
    ap.add_argument("--tier", default=os.environ.get("VERIF_TIER", "quick"))
    ap.add_argument("--replay")
    ap.add_argument("--shard")
    ap.add_argument("--partial-out")
    ap.add_argument("--workers", type=int, default=None)
    args = ap.parse_args(argv)
    if args.tier not in ("quick", "thorough"):
        args.tier = "quick"
    seed = int(os.environ.get("VERIF_SEED", "0") or 0)
    pid = args.pid.upper()
    mod = load(pid)
    t0 = time.time()

    # ---------------------------------------------------------------- replay
    if args.replay:
        w = json.loads(Path(args.replay).read_text())
        amb = {k: str(v) for k, v in (w.get("ambient") or {}).items() if v not in (None, "")}
        if any(os.environ.get(k, "") != v for k, v in amb.items()):
            # the witness was observed under other process settings (hash seed, python -O, the
            # ambient lane): replay under those
            env = dict(os.environ, **amb)
            os.execve(sys.executable, [sys.executable, "-m", "jsverif.cli"] + list(argv or sys.argv[1:]), env)
        case = w.get("case", w)
        ctx = core.Ctx(pid, args.tier, seed, replay=True)
        p = core.run_shard(mod, ctx, replay_case=case)
        return core.merge_and_report(
            mod, args.tier, seed, [p], time.time() - t0, replaying=True
        )

    # ---------------------------------------------------------------- worker
    if args.shard:
        i, n = map(int, args.shard.split("/"))
        ctx = core.Ctx(pid, args.tier, seed, shard=i, nshards=n)
        budget = getattr(mod, "SOFT_BUDGET_S", {"quick": 150, "thorough": 1200}).get(args.tier)
        if budget:
            ctx.deadline = time.time() + budget
        p = core.run_shard(mod, ctx)
        Path(args.partial_out).write_text(json.dumps(p, default=str))
        return 0

    # ---------------------------------------------------------------- parent
    default_workers = 1 if args.tier == "quick" else min(14, os.cpu_count() or 1)
    n = args.workers or getattr(mod, "WORKERS", {}).get(args.tier, default_workers)
    hard = getattr(mod, "HARD_TIMEOUT_S", {"quick": 600, "thorough": 3600})[args.tier]
    partials = []
    inconclusive = []
    if n == 1:
        ctx = core.Ctx(pid, args.tier, seed)
        budget = getattr(mod, "SOFT_BUDGET_S", {"quick": 150, "thorough": 1200}).get(args.tier)
        if budget:
            ctx.deadline = time.time() + budget
        partials.append(core.run_shard(mod, ctx))
        lane = getattr(mod, "HASHSEED_LANE", 6)
        if lane and not os.environ.get("JSVERIF_NO_HASHSEED_LANE"):
            # further slices of cases (shards 1 and 2 of `lane`) in subprocesses under other process
            # settings: another hash seed (iteration order of string sets etc. is an input the
            # library must not depend on); and the 'ambient' lane - python -O, a third hash seed,
            # unusual numpy / matplotlib / warnings settings (core.apply_ambient)
            lanes = [("a_second_hash_seed", 1, {"PYTHONHASHSEED": str((seed * 131 + 7919) % 4294967295)}),
                     ("unusual_process_settings", 2,
                      {"PYTHONHASHSEED": str((seed * 131 + 104729) % 4294967295), "PYTHONOPTIMIZE": "1",
                       "JSVERIF_AMBIENT": "1"})]
            with tempfile.TemporaryDirectory(prefix="jsverif-") as td:
                running = []
                for name, idx, extra in lanes:
                    out = Path(td) / f"lane{idx}.json"
                    cmd = [sys.executable, "-m", "jsverif.cli", pid, "--tier", args.tier,
                           "--shard", f"{idx}/{lane}", "--partial-out", str(out)]
                    running.append((name, out, subprocess.Popen(
                        cmd, cwd=str(core.ROOT), env=dict(os.environ, **extra),
                        stdout=subprocess.PIPE, stderr=subprocess.STDOUT, text=True)))
                for name, out, pr in running:
                    try:
                        txt, _ = pr.communicate(timeout=hard)
                    except subprocess.TimeoutExpired:
                        pr.kill()
                        inconclusive.append(f"lane {name} hit the wall-clock watchdog")
                        continue
                    if out.exists():
                        lp = json.loads(out.read_text())
                        lp.setdefault("counters", {})["cases_run_under_" + name] = \
                            lp.get("evaluations", 0) or len(lp.get("distinct", []))
                        partials.append(lp)
                    else:
                        inconclusive.append(f"lane {name} produced no result: " + (txt or "")[-800:])
    else:
        with tempfile.TemporaryDirectory(prefix="jsverif-") as td:
            procs = []
            for i in range(n):
                out = Path(td) / f"p{i}.json"
                log = open(Path(td) / f"log{i}.txt", "w")
                cmd = [
                    sys.executable, "-m", "jsverif.cli", pid,
                    "--tier", args.tier, "--shard", f"{i}/{n}",
                    "--partial-out", str(out),
                ]
                # every shard runs under its own hash seed (iteration order of string sets and the
                # like is an input the library must not depend on); recorded in every witness
                env = dict(os.environ, PYTHONHASHSEED=str((seed * 131 + i * 7919) % 4294967295))
                if i == n - 1 and n >= 3:
                    env.update(PYTHONOPTIMIZE="1", JSVERIF_AMBIENT="1")     # the 'ambient' lane
                procs.append((i, out, log, subprocess.Popen(
                    cmd, stdout=log, stderr=subprocess.STDOUT, cwd=str(core.ROOT), env=env
                )))
            deadline = time.time() + hard
            for i, out, log, pr in procs:
                try:
                    pr.wait(timeout=max(1, deadline - time.time()))
                except subprocess.TimeoutExpired:
                    pr.kill()
                    inconclusive.append(f"shard {i} hit the wall-clock watchdog")
                log.close()
                if out.exists():
                    partials.append(json.loads(out.read_text()))
                else:
                    tail = (Path(td) / f"log{i}.txt").read_text()[-1500:]
                    inconclusive.append(f"shard {i} produced no result: {tail}")
    if inconclusive:
        if not partials:
            partials = [core.Ctx(pid, args.tier, seed).partial()]
        partials[0].setdefault("inconclusive", []).extend(inconclusive)
    return core.merge_and_report(mod, args.tier, seed, partials, time.time() - t0)


if __name__ == "__main__":
    sys.exit(main())
