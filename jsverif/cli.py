"""./check <Cxx> [--tier quick|thorough] [--replay file] [--shard i/n --partial-out f]"""

from __future__ import annotations

import argparse
import importlib
import json
import os
import subprocess
import sys
import tempfile
import time
from pathlib import Path

from . import core


def load(pid):
    return importlib.import_module(f"jsverif.props.{pid.lower()}")


def main(argv=None):
    ap = argparse.ArgumentParser()
    ap.add_argument("pid")
    ap.add_argument("--tier", default=os.environ.get("VERIF_TIER", "quick"))
    ap.add_argument("--replay")
    ap.add_argument("--shard")
    ap.add_argument("--partial-out")
    ap.add_argument("--workers", type=int, default=None)
    args = ap.parse_args(argv)
    if args.tier not in ("quick", "thorough"):
        args.tier = "quick"
    seed = int(os.environ.get("VERIF_SEED", "0") or 0)
    pid = args.pid.upper()
    mod = load(pid)
    t0 = time.time()

    # ---------------------------------------------------------------- replay
    if args.replay:
        w = json.loads(Path(args.replay).read_text())
        want_hs = (w.get("ambient") or {}).get("PYTHONHASHSEED")
        if want_hs not in (None, "", os.environ.get("PYTHONHASHSEED")):
            # the witness was observed under another hash seed: replay under that one
            env = dict(os.environ, PYTHONHASHSEED=str(want_hs))
            os.execve(sys.executable, [sys.executable, "-m", "jsverif.cli"] + list(argv or sys.argv[1:]), env)
        case = w.get("case", w)
        ctx = core.Ctx(pid, args.tier, seed, replay=True)
        p = core.run_shard(mod, ctx, replay_case=case)
        return core.merge_and_report(
            mod, args.tier, seed, [p], time.time() - t0, replaying=True
        )

    # ---------------------------------------------------------------- worker
    if args.shard:
        i, n = map(int, args.shard.split("/"))
        ctx = core.Ctx(pid, args.tier, seed, shard=i, nshards=n)
        budget = getattr(mod, "SOFT_BUDGET_S", {"quick": 150, "thorough": 1200}).get(args.tier)
        if budget:
            ctx.deadline = time.time() + budget
        p = core.run_shard(mod, ctx)
        Path(args.partial_out).write_text(json.dumps(p, default=str))
        return 0

    # ---------------------------------------------------------------- parent
    default_workers = 1 if args.tier == "quick" else min(14, os.cpu_count() or 1)
    n = args.workers or getattr(mod, "WORKERS", {}).get(args.tier, default_workers)
    hard = getattr(mod, "HARD_TIMEOUT_S", {"quick": 600, "thorough": 3600})[args.tier]
    partials = []
    inconclusive = []
    if n == 1:
        ctx = core.Ctx(pid, args.tier, seed)
        budget = getattr(mod, "SOFT_BUDGET_S", {"quick": 150, "thorough": 1200}).get(args.tier)
        if budget:
            ctx.deadline = time.time() + budget
        partials.append(core.run_shard(mod, ctx))
        lane = getattr(mod, "HASHSEED_LANE", 6)
        if lane and not os.environ.get("JSVERIF_NO_HASHSEED_LANE"):
            # a further slice of cases (shard 1 of `lane`) in a subprocess under another hash seed:
            # iteration order of string sets etc. is an input the library must not depend on
            with tempfile.TemporaryDirectory(prefix="jsverif-") as td:
                out = Path(td) / "lane.json"
                env = dict(os.environ, PYTHONHASHSEED=str((seed * 131 + 7919) % 4294967295))
                cmd = [sys.executable, "-m", "jsverif.cli", pid, "--tier", args.tier,
                       "--shard", f"1/{lane}", "--partial-out", str(out)]
                try:
                    pr = subprocess.run(cmd, cwd=str(core.ROOT), env=env, capture_output=True, text=True,
                                        timeout=hard)
                    if out.exists():
                        lp = json.loads(out.read_text())
                        lp.setdefault("counters", {})["cases_run_under_a_second_hash_seed"] = \
                            lp.get("evaluations", 0) or len(lp.get("distinct", []))
                        partials.append(lp)
                    else:
                        inconclusive.append("hash-seed lane produced no result: " + (pr.stdout + pr.stderr)[-800:])
                except subprocess.TimeoutExpired:
                    inconclusive.append("hash-seed lane hit the wall-clock watchdog")
    else:
        with tempfile.TemporaryDirectory(prefix="jsverif-") as td:
            procs = []
            for i in range(n):
                out = Path(td) / f"p{i}.json"
                log = open(Path(td) / f"log{i}.txt", "w")
                cmd = [
                    sys.executable, "-m", "jsverif.cli", pid,
                    "--tier", args.tier, "--shard", f"{i}/{n}",
                    "--partial-out", str(out),
                ]
                # every shard runs under its own hash seed (iteration order of string sets and the
                # like is an input the library must not depend on); recorded in every witness
                env = dict(os.environ, PYTHONHASHSEED=str((seed * 131 + i * 7919) % 4294967295))
                procs.append((i, out, log, subprocess.Popen(
                    cmd, stdout=log, stderr=subprocess.STDOUT, cwd=str(core.ROOT), env=env
                )))
            deadline = time.time() + hard
            for i, out, log, pr in procs:
                try:
                    pr.wait(timeout=max(1, deadline - time.time()))
                except subprocess.TimeoutExpired:
                    pr.kill()
                    inconclusive.append(f"shard {i} hit the wall-clock watchdog")
                log.close()
                if out.exists():
                    partials.append(json.loads(out.read_text()))
                else:
                    tail = (Path(td) / f"log{i}.txt").read_text()[-1500:]
                    inconclusive.append(f"shard {i} produced no result: {tail}")
    if inconclusive:
        if not partials:
            partials = [core.Ctx(pid, args.tier, seed).partial()]
        partials[0].setdefault("inconclusive", []).extend(inconclusive)
    return core.merge_and_report(mod, args.tier, seed, partials, time.time() - t0)


if __name__ == "__main__":
    sys.exit(main())
