"""pytest plugin: runs the repository's own tests with the contract layer on."""

import json
import os

from jsverif import monitors

_out = os.environ.get("JSVERIF_PYTEST_OUT")
_kinds = os.environ.get("JSVERIF_PYTEST_KINDS", "c01,c02").split(",")
_current = {"test": None}


def _sink(kind, witness):
    if not any(kind.startswith(k) for k in _kinds):
        return
    with open(_out, "a") as f:
        f.write(json.dumps({"kind": kind, "test": _current["test"],
                            "witness": witness}, default=str) + "\n")


def pytest_configure(config):
    if _out:
        monitors.install(_sink)


def pytest_runtest_setup(item):
    _current["test"] = item.nodeid


def pytest_sessionfinish(session, exitstatus):
    if _out:
        with open(_out, "a") as f:
            f.write(json.dumps({"summary": True, "counts": dict(monitors.COUNTS),
                                "exitstatus": int(exitstatus)}) + "\n")
