"""Contract layer: post-conditions hooked onto the real Dispatcher.

`install(sink)` wraps Dispatcher.dispatch / Dispatcher.reset / Schedule.add in
place (the classes the whole library and the test-suite use).  The checks read
only raw state (schedule lists, the three tracking vectors, operation
attributes); they never call cached queries, so they cannot perturb the
behaviour they watch.  `sink(kind, witness)` receives refuting observations;
`COUNTS` says how often each contract was evaluated (zero => inconclusive).
"""

from __future__ import annotations

import functools
from collections import Counter

COUNTS = Counter()
_installed = {}


def _sched_dump(dispatcher):
    return [
        [(so.operation.operation_id, so.start_time, so.machine_id) for so in lst]
        for lst in dispatcher.schedule.schedule
    ]


def _inst_dump(instance):
    return {
        "durations": [[op.duration for op in job] for job in instance.jobs],
        "machines": [[list(op.machines) for op in job] for job in instance.jobs],
    }


def feasibility_errors_raw(dispatcher):
    """C01 oracle on the live dispatcher: plain loops over the schedule."""
    errs = []
    inst = dispatcher.instance
    sched = dispatcher.schedule.schedule
    if len(sched) != inst.num_machines:
        errs.append(f"{len(sched)} machine lists, {inst.num_machines} machines")
    seen = {}
    for idx, lst in enumerate(sched):
        prev = None
        for so in lst:
            op = so.operation
            key = id(op)
            if key in seen:
                errs.append(f"operation {op.operation_id} scheduled twice")
            seen[key] = so
            if so.machine_id != idx:
                errs.append(
                    f"op {op.operation_id} machine {so.machine_id} in list {idx}"
                )
            if so.machine_id not in op.machines:
                errs.append(
                    f"op {op.operation_id} on ineligible machine {so.machine_id}"
                )
            if so.start_time < 0:
                errs.append(f"op {op.operation_id} negative start")
            if inst.jobs[op.job_id][op.position_in_job] is not op:
                errs.append(f"op {op.operation_id} is not an operation of the instance")
            if prev is not None:
                if so.start_time < prev.start_time + prev.operation.duration:
                    errs.append(
                        f"machine {idx}: op {op.operation_id} overlaps previous"
                    )
                if so.start_time < prev.start_time:
                    errs.append(f"machine {idx}: not time ordered")
            prev = so
    for j, job in enumerate(inst.jobs):
        flags = [id(op) in seen for op in job]
        if any(b and not a for a, b in zip(flags, flags[1:])):
            errs.append(f"job {j}: positions scheduled with a gap: {flags}")
        prev_end = 0
        for op in job:
            so = seen.get(id(op))
            if so is None:
                break
            if so.start_time < prev_end:
                errs.append(
                    f"job {j}: op {op.operation_id} starts before its predecessor ends"
                )
            prev_end = so.start_time + op.duration
    return errs, len(seen)


def derived_tracking(dispatcher):
    """What the tracking vectors must be, derived from the schedule only."""
    inst = dispatcher.instance
    sched = dispatcher.schedule.schedule
    m_end = [0] * inst.num_machines
    j_end = [0] * inst.num_jobs
    j_next = [0] * inst.num_jobs
    n = 0
    mk = 0
    for idx, lst in enumerate(sched):
        for so in lst:
            e = so.start_time + so.operation.duration
            if idx < len(m_end):
                m_end[idx] = e  # last in list order
            j = so.operation.job_id
            j_next[j] += 1
            n += 1
            mk = max(mk, e)
    # job end = end of the scheduled op with the highest position
    best = {}
    for lst in sched:
        for so in lst:
            j, p = so.operation.job_id, so.operation.position_in_job
            if j not in best or p > best[j][0]:
                best[j] = (p, so.start_time + so.operation.duration)
    for j, (_, e) in best.items():
        j_end[j] = e
    return m_end, j_end, j_next, n, mk


def install(sink):
    """Idempotently wraps the real classes.  Returns an uninstall function."""
    from job_shop_lib.dispatching import Dispatcher

    if _installed:
        _installed["sink"] = sink
        return uninstall
    _installed["sink"] = sink
    orig_dispatch = Dispatcher.dispatch
    orig_reset = Dispatcher.reset
    _installed["orig"] = (orig_dispatch, orig_reset)

    @functools.wraps(orig_dispatch)
    def dispatch(self, operation, machine_id=None):
        # ---- pre-state, from raw data only
        pre_n = sum(len(lst) for lst in self.schedule.schedule)
        pre = _sched_dump(self)
        try:
            result = orig_dispatch(self, operation, machine_id)
        except Exception:
            COUNTS["dispatch_rejected"] += 1
            raise
        COUNTS["dispatch_post"] += 1
        snk = _installed["sink"]
        # ---- C01: feasibility after every accepted dispatch
        errs, nseen = feasibility_errors_raw(self)
        if errs:
            snk(
                "c01_infeasible_after_dispatch",
                {"errors": errs[:8], "schedule": _sched_dump(self),
                 "instance": _inst_dump(self.instance),
                 "request": [operation.operation_id, machine_id]},
            )
        if nseen != pre_n + 1:
            snk(
                "c01_dispatch_did_not_add_exactly_one",
                {"before": pre_n, "after": nseen,
                 "instance": _inst_dump(self.instance)},
            )
        complete = self.schedule.is_complete()
        if complete != (nseen == self.instance.num_operations):
            snk("c01_is_complete_mismatch", {"n": nseen, "is_complete": complete})
        # ---- C02: forced start computed from the *pre* schedule
        mid = machine_id
        if mid is None and len(operation.machines) == 1:
            mid = operation.machines[0]
        so_new = None
        for lst in self.schedule.schedule:
            for so in lst:
                if so.operation is operation:
                    so_new = so
        if so_new is not None and mid is not None and 0 <= mid < len(pre):
            m_free = 0
            if pre[mid]:
                o_id, s, _ = pre[mid][-1]
                m_free = s + _dur_of(self.instance, o_id)
            j_free = 0
            if operation.position_in_job > 0:
                pred = self.instance.jobs[operation.job_id][
                    operation.position_in_job - 1
                ]
                for lst in pre:
                    for o_id, s, _ in lst:
                        if o_id == pred.operation_id:
                            j_free = s + pred.duration
            want = max(m_free, j_free)
            COUNTS["c02_start_checked"] += 1
            if so_new.start_time != want or so_new.machine_id != mid:
                snk(
                    "c02_start_not_forced",
                    {"op": operation.operation_id, "machine": mid,
                     "got": so_new.start_time, "want": want, "pre": pre,
                     "instance": _inst_dump(self.instance)},
                )
        _check_tracking(self, snk, "after_dispatch")
        return result

    @functools.wraps(orig_reset)
    def reset(self):
        result = orig_reset(self)
        COUNTS["reset_post"] += 1
        snk = _installed["sink"]
        if any(self.schedule.schedule):
            snk("c02_reset_left_schedule", {"schedule": _sched_dump(self)})
        _check_tracking(self, snk, "after_reset")
        return result

    Dispatcher.dispatch = dispatch
    Dispatcher.reset = reset
    return uninstall


def _dur_of(instance, op_id):
    for job in instance.jobs:
        for op in job:
            if op.operation_id == op_id:
                return op.duration
    raise KeyError(op_id)


def _check_tracking(d, snk, where):
    m_end, j_end, j_next, n, mk = derived_tracking(d)
    COUNTS["c02_tracking_checked"] += 1
    got = (
        list(d.machine_next_available_time),
        list(d.job_next_available_time),
        list(d.job_next_operation_index),
        d.schedule.num_scheduled_operations,
        d.schedule.makespan(),
    )
    want = (m_end, j_end, j_next, n, mk)
    if got != want:
        names = ["machine_next_available_time", "job_next_available_time",
                 "job_next_operation_index", "num_scheduled_operations", "makespan"]
        diff = {nm: {"got": g, "want": w} for nm, g, w in zip(names, got, want) if g != w}
        snk(
            "c02_tracking_mismatch",
            {"where": where, "diff": diff, "schedule": _sched_dump(d),
             "instance": _inst_dump(d.instance)},
        )


def uninstall():
    from job_shop_lib.dispatching import Dispatcher

    if not _installed:
        return
    Dispatcher.dispatch, Dispatcher.reset = _installed["orig"]
    _installed.clear()
