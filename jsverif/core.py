"""Run context, verdicts, evidence, known-finding classification, sharding.

Every property module exposes

    ID, LEVEL, RULE, ANCHORS (list of "module:qualname"), ASSUMPTIONS
    gen_cases(ctx)      -> iterator of JSON-serialisable case dicts
    run_case(ctx, case) -> None   (calls ctx.violation / ctx.count / ...)
    witnesses(ctx)      -> optional: deterministic cases re-run on every run
                           (known-finding witnesses, regression witnesses)

A *case* fully determines an execution (instance matrices, configuration,
in-case PRNG seed), so a violation witness is replayable with
``./check <id> --replay <file>``.
"""

from __future__ import annotations

import hashlib
import json
import os
import random
import subprocess
import sys
import time
import traceback
from collections import Counter
from pathlib import Path

ROOT = Path(__file__).resolve().parent.parent
REPO = Path(os.environ.get("JSVERIF_REPO", "/repo")).resolve()
EVIDENCE_DIR = Path(os.environ.get("JSVERIF_EVIDENCE_DIR", ROOT / "evidence"))
REPLAY_DIR = Path(os.environ.get("JSVERIF_REPLAY_DIR", ROOT / "replays"))
KNOWN_FILE = ROOT / "known_findings.json"

EXIT_HELD, EXIT_VIOLATION, EXIT_INCONCLUSIVE = 0, 1, 2


class Inconclusive(Exception):
    pass


def stable_hash(obj) -> str:
    return hashlib.sha1(
        json.dumps(obj, sort_keys=True, default=str).encode()
    ).hexdigest()[:16]


def jsonable(x):
    """Best-effort conversion of witnesses to JSON."""
    import numpy as np

    if isinstance(x, dict):
        return {str(k): jsonable(v) for k, v in x.items()}
    if isinstance(x, (list, tuple, set, frozenset)):
        return [jsonable(v) for v in x]
    if isinstance(x, np.ndarray):
        return jsonable(x.tolist())
    if isinstance(x, (np.integer,)):
        return int(x)
    if isinstance(x, (np.floating,)):
        return float(x)
    if isinstance(x, (np.bool_,)):
        return bool(x)
    if isinstance(x, float):
        if x != x:
            return "nan"
        if x in (float("inf"), float("-inf")):
            return str(x)
        return x
    if isinstance(x, (int, str, bool)) or x is None:
        return x
    return repr(x)


def repo_tree_info() -> dict:
    """HEAD + hash of the tracked python sources actually imported."""
    import job_shop_lib

    lib_file = Path(job_shop_lib.__file__).resolve()
    if REPO not in lib_file.parents:
        raise Inconclusive(
            f"job_shop_lib imported from {lib_file}, expected under {REPO}"
        )
    h = hashlib.sha1()
    n = 0
    for p in sorted((REPO / "job_shop_lib").rglob("*.py")):
        h.update(str(p.relative_to(REPO)).encode())
        h.update(p.read_bytes())
        n += 1
    head = ""
    try:
        head = subprocess.run(
            ["git", "-C", str(REPO), "rev-parse", "HEAD"],
            capture_output=True,
            text=True,
            timeout=20,
        ).stdout.strip()
    except Exception:  # pragma: no cover
        pass
    return {
        "repo": str(REPO),
        "lib_file": str(lib_file),
        "head": head,
        "py_files": n,
        "tree_sha1": h.hexdigest(),
    }


class KnownFindings:
    def __init__(self):
        self.open = []
        self.fixed = []
        if KNOWN_FILE.exists():
            data = json.loads(KNOWN_FILE.read_text())
            self.open = data.get("open", [])
            self.fixed = data.get("fixed", [])

    def open_for(self, pid):
        return [f for f in self.open if f["property"] == pid]


class Ctx:
    """Per-process run context (one shard)."""

    def __init__(self, pid, tier, seed, shard=0, nshards=1, replay=None):
        self.pid = pid
        self.tier = tier
        self.seed = seed
        self.shard = shard
        self.nshards = nshards
        self.replaying = replay is not None
        self.rng = random.Random(f"{pid}:{seed}:{shard}")
        self.evaluations = 0
        self.distinct = set()
        self.counters = Counter()
        self.samples = []
        self.violations = []  # dicts
        self.known_hits = Counter()
        self.known_examples = {}
        self.inconclusive = []
        self.current_case = None
        self.t0 = time.time()
        self.known = KnownFindings()
        self._classifiers = None
        self.max_violations = 25
        self.deadline = None  # soft wall-clock budget for generators

    # ------------------------------------------------------------ budget
    def scale(self, quick, thorough):
        """Number of cases for this shard."""
        n = quick if self.tier == "quick" else thorough
        per = n // self.nshards + (1 if self.shard < n % self.nshards else 0)
        return max(per, 0)

    def out_of_time(self):
        return self.deadline is not None and time.time() > self.deadline

    # ------------------------------------------------------------ counting
    def count(self, key, n=1):
        self.counters[key] += n

    def note_case(self, case, nontrivial=True, fingerprint=None):
        self.evaluations += 1
        if nontrivial:
            self.distinct.add(
                fingerprint if fingerprint is not None else stable_hash(case)
            )
        if len(self.samples) < 3:
            self.samples.append(jsonable(case))

    # ------------------------------------------------------------ verdicts
    def _classify(self, kind, witness):
        if self._classifiers is None:
            from . import known as known_mod

            self._classifiers = known_mod.CLASSIFIERS
        for f in self.known.open_for(self.pid):
            fn = self._classifiers.get(f["classifier"])
            if fn is None:
                continue
            try:
                if fn(kind, witness):
                    return f
            except Exception:
                continue
        return None

    def violation(self, kind, witness=None, **extra):
        """Record a refuting observation for the current case."""
        w = {"kind": kind, "case": self.current_case,
             # ambient conditions of this process that a replay has to reproduce
             "ambient": {k: os.environ.get(k, "") for k in AMBIENT_KEYS}}
        if witness is not None:
            w["witness"] = jsonable(witness)
        w.update(jsonable(extra))
        f = self._classify(kind, w)
        if f is not None:
            self.known_hits[f["key"]] += 1
            self.known_examples.setdefault(f["key"], w)
            return
        self.counters["violations_raw"] += 1
        if len(self.violations) < self.max_violations:
            self.violations.append(w)

    def too_many(self):
        return len(self.violations) >= self.max_violations

    # ------------------------------------------------------------ partial
    def partial(self):
        return {
            "pid": self.pid,
            "shard": self.shard,
            "evaluations": self.evaluations,
            "distinct": sorted(self.distinct),
            "counters": dict(self.counters),
            "samples": self.samples,
            "violations": self.violations,
            "known_hits": dict(self.known_hits),
            "known_examples": self.known_examples,
            "inconclusive": self.inconclusive,
            "wall_s": time.time() - self.t0,
        }


AMBIENT_KEYS = ("PYTHONHASHSEED", "PYTHONOPTIMIZE", "JSVERIF_AMBIENT")


def apply_ambient():
    """The 'ambient' lane: process settings that are unusual but perfectly legitimate and that the
    library's results must not depend on.  Applied inside the process when JSVERIF_AMBIENT=1 (the
    interpreter-level ones - python -O, another hash seed - come through the environment)."""
    if os.environ.get("JSVERIF_AMBIENT") != "1":
        return False
    import warnings
    import numpy as np
    import matplotlib
    # the modules the library needs are imported first: what they warn about while being imported
    # is not the library's business
    import job_shop_lib  # noqa: F401
    import job_shop_lib.dispatching.rules  # noqa: F401
    import job_shop_lib.dispatching.feature_observers  # noqa: F401
    import job_shop_lib.graphs.graph_updaters  # noqa: F401
    import job_shop_lib.reinforcement_learning  # noqa: F401
    import job_shop_lib.visualization  # noqa: F401
    import job_shop_lib.generation  # noqa: F401
    import job_shop_lib.constraint_programming  # noqa: F401
    import job_shop_lib.benchmarking  # noqa: F401
    import matplotlib.pyplot  # noqa: F401
    import imageio  # noqa: F401
    np.set_printoptions(threshold=4, edgeitems=1, precision=1, suppress=True, linewidth=40)
    matplotlib.rcParams["savefig.format"] = "svg"
    matplotlib.rcParams["figure.max_open_warning"] = 0
    # warnings are errors in this process (a common CI setting) - those the library itself issues
    # (a `warnings.warn` call in its own source files) and numpy's RuntimeWarnings; what other
    # packages warn about on the library's behalf (matplotlib about a degenerate axis, ...) is
    # left alone: the unchanged tree triggers some of those legitimately
    lib_dir = os.path.dirname(os.path.abspath(job_shop_lib.__file__)) + os.sep
    plain_warn = warnings.warn

    def warn(message, category=None, stacklevel=1, *args, **kwargs):
        caller = sys._getframe(1).f_code.co_filename
        cat = type(message) if isinstance(message, Warning) else (category or UserWarning)
        announcements = (DeprecationWarning, PendingDeprecationWarning, FutureWarning)
        if os.path.abspath(caller).startswith(lib_dir) and not issubclass(cat, announcements):
            # (deprecation notices are announcements about the API, not about this call going wrong)
            if isinstance(message, Warning):
                raise message
            raise (category or UserWarning)(message)
        return plain_warn(message, category, stacklevel + 1, *args, **kwargs)
    warnings.warn = warn
    warnings.filterwarnings("error", category=RuntimeWarning)
    return True


def run_shard(mod, ctx: Ctx, replay_case=None):
    """Execute one shard in this process; returns the partial dict."""
    from . import reach

    ambient = apply_ambient()

    tracker = reach.Tracker(getattr(mod, "ANCHORS", []))
    tracker.start()
    try:
        if replay_case is not None:
            cases = [replay_case]
        else:
            cases = _all_cases(mod, ctx)
        for case in cases:
            if ctx.out_of_time() and replay_case is None:
                # soft wall-clock budget of this shard: stop generating new cases (what was
                # executed so far is judged normally; minimum counters still apply)
                ctx.count("stopped_by_soft_budget")
                break
            ctx.current_case = case
            if ambient:
                ctx.count("cases_under_python_O_and_unusual_numpy_matplotlib_warnings_settings")
            gseed = case.get("seed", 0) if isinstance(case, dict) else 0
            random.seed(f"case:{gseed}")
            try:
                mod.run_case(ctx, case)
            except Inconclusive as e:
                ctx.inconclusive.append(str(e))
            except Warning:
                # only in the ambient lane (warnings are errors there): a call that merely warns is
                # allowed to fail under the user's own warning policy; what must not happen is a
                # request left half done - that is judged where the harness can look at the state
                # afterwards (drive.Run.dispatch), not here
                if not ambient:
                    raise
                ctx.count("cases_abandoned_because_a_warning_was_an_error")
            except Exception as e:  # harness or library crash: surface it
                ctx.violation(
                    "unexpected_exception",
                    {
                        "type": type(e).__name__,
                        "msg": str(e)[:500],
                        "tb": traceback.format_exc()[-2500:],
                    },
                )
            if ctx.too_many():
                break
    finally:
        tracker.stop()
    p = ctx.partial()
    p["reach"] = tracker.hits()
    return p


def _all_cases(mod, ctx):
    if hasattr(mod, "witnesses") and ctx.shard == 0:
        for c in mod.witnesses(ctx):
            yield c
    yield from mod.gen_cases(ctx)


def merge_and_report(mod, tier, seed, partials, wall_s, replaying=False):
    """Merge shard partials, write evidence, print verdict, return exit code."""
    pid = mod.ID
    evaluations = sum(p["evaluations"] for p in partials)
    distinct = set()
    counters = Counter()
    samples = []
    violations = []
    known_hits = Counter()
    known_examples = {}
    inconclusive = []
    reach = Counter()
    for p in partials:
        distinct.update(p["distinct"])
        counters.update(p["counters"])
        for s in p["samples"]:
            if len(samples) < 4:
                samples.append(s)
        violations.extend(p["violations"])
        known_hits.update(p["known_hits"])
        for k, v in p["known_examples"].items():
            known_examples.setdefault(k, v)
        inconclusive.extend(p["inconclusive"])
        reach.update(p.get("reach", {}))

    known = KnownFindings()
    # anchored functions must have been reached
    unresolved = [a for a in getattr(mod, "ANCHORS", []) if a not in reach]
    def _private(anchor):
        last = anchor.split(":")[1].split(".")[-1]
        return last.startswith("_") and not (last.startswith("__") and last.endswith("__"))
    unreached_all = [a for a in getattr(mod, "ANCHORS", []) if a in reach and reach[a] == 0]
    # a private helper that is no longer called (a refactor may keep it for compatibility) is
    # reported but does not decide; public entry points that were never executed do
    unreached = [a for a in unreached_all if not _private(a)]
    unreached_private = [a for a in unreached_all if _private(a)]
    # Reach is decided by the monitors' own evaluation counters (REQUIRED_COUNTERS below).  The
    # anchors are an additional guard: if NONE of the anchored functions ran, the workload did
    # not touch the code the property is about.  Single anchors without hits are reported in
    # the evidence only - after a refactor an entry point may legitimately stop calling a helper.
    if reach and all(v == 0 for v in reach.values()) and not replaying:
        inconclusive.append(f"none of the anchored functions was executed: {sorted(reach)}")
    min_eval = getattr(mod, "MIN_EVALUATIONS", {"quick": 5, "thorough": 5})[tier]
    if evaluations < min_eval and not replaying:
        inconclusive.append(f"only {evaluations} cases executed (< {min_eval})")
    for key, need in getattr(mod, "REQUIRED_COUNTERS", {}).items():
        if counters.get(key, 0) < need and not replaying:
            inconclusive.append(
                f"monitor counter {key}={counters.get(key, 0)} < {need}: "
                "deciding oracle not (sufficiently) reached"
            )

    replay_paths = []
    if violations:
        d = REPLAY_DIR / pid
        d.mkdir(parents=True, exist_ok=True)
        for v in violations[:10]:
            name = f"{v['kind']}-{stable_hash(v)}.json"
            path = d / name
            path.write_text(json.dumps(v, indent=1, default=str))
            replay_paths.append(str(path.relative_to(ROOT)) if ROOT in path.parents else str(path))

    try:
        tree = repo_tree_info()
    except Inconclusive as e:
        tree = {"error": str(e)}
        inconclusive.append(str(e))

    coverage = {
        "evaluations": int(evaluations),
        "distinct_nontrivial": len(distinct),
        "rule": mod.RULE,
        "samples": samples or [{"note": "no sample recorded"}],
        "monitor_counters": dict(sorted(counters.items())),
        "anchored_function_hits": dict(sorted(reach.items())),
        "anchored_functions_not_found_by_name": unresolved,
        "anchored_private_helpers_not_executed": unreached_private,
        "anchored_public_functions_not_executed": unreached,
        "known_finding_hits": dict(known_hits),
        "shards": len(partials),
        "exhaustive": False,
        "tree": tree,
        "inconclusive_reasons": inconclusive,
        "violation_replays": replay_paths,
    }
    ev = {
        "property_id": pid,
        "tier": tier,
        "seed": int(seed),
        "level": mod.LEVEL,
        "coverage": coverage,
        "assumptions": list(getattr(mod, "ASSUMPTIONS", [])),
        "wall_s": round(wall_s, 2),
        "violations": len(violations),
    }
    if not replaying:
        EVIDENCE_DIR.mkdir(exist_ok=True)
        (EVIDENCE_DIR / f"{pid}.json").write_text(
            json.dumps(ev, indent=1, default=str)
        )

    # ---------------------------------------------------------- report
    print(
        f"[{pid}] tier={tier} seed={seed} cases={evaluations} "
        f"distinct_nontrivial={len(distinct)} wall={wall_s:.1f}s"
    )
    for k, v in sorted(counters.items()):
        print(f"    {k} = {v}")
    for f in known.open_for(pid):
        n = known_hits.get(f["key"], 0)
        if n:
            print(
                f"KNOWN-FINDING: property={pid} {f['what']} "
                f"[key={f['key']} observed {n}x this run]"
            )
        elif not replaying:
            print(
                f"NOTE: property={pid} listed known finding {f['key']} was "
                "not re-observed on this tree"
            )
    if violations:
        for v, path in zip(violations, replay_paths):
            print(f"VIOLATION property={pid} replay={path}")
            print(f"    kind={v['kind']}")
        return EXIT_VIOLATION
    if inconclusive:
        for r in inconclusive:
            print(f"INCONCLUSIVE property={pid} reason={r}")
        return EXIT_INCONCLUSIVE
    print(f"HELD property={pid} (on everything observed)")
    return EXIT_HELD
