"""Lock-step execution of the real Dispatcher and the reference model."""

from __future__ import annotations

import random

from . import gen
from .ref import Ref


# every n-th explicit machine id (deterministically chosen) is handed over as numpy.int64; 0 = never
NUMPY_MACHINE_IDS = 7


class DispatchLeftHalfDone(Exception):
    """a dispatch that failed (a warning turned into an error) changed part of the state"""


class Run:
    """A real instance + dispatcher driven side by side with a Ref."""

    def __init__(self, inst, filter_spec=None, dispatcher=None, instance=None):
        from job_shop_lib.dispatching import Dispatcher

        self.inst = inst
        self.filter_spec = filter_spec
        self.filter_names = None if filter_spec is None else filter_spec["names"]
        self.instance = instance if instance is not None else gen.build(inst)
        self.ops = [op for job in self.instance.jobs for op in job]
        self.d = (
            dispatcher
            if dispatcher is not None
            else Dispatcher(
                self.instance, ready_operations_filter=gen.make_filter(filter_spec)
            )
        )
        self.r = Ref(inst)
        # exact reference for the available set exists unless the dominated
        # filter meets zero durations (documented shortcut, order dependent)
        self.exact_filters = not (
            self.filter_names
            and "dominated_operations" in self.filter_names
            and self.r.has_zero
        )
        # the filtered clock equals the unfiltered one only for positive
        # durations (C06 scope)
        self.clock_exact = self.filter_names is None or not self.r.has_zero
        self.rr = 0

    # -------------------------------------------------------------- helpers
    def op(self, oid):
        return self.ops[oid]

    def ids(self, ops):
        return [o.operation_id for o in ops]

    def ref_available(self):
        """Reference available set (ids), or None if no exact reference."""
        if not self.exact_filters:
            return None
        return self.r.available(self.filter_names)

    def ref_now(self):
        if self.filter_names is None:
            return self.r.current_time(None)
        if not self.r.has_zero:
            # C06: with positive durations filtering never changes the clock
            return self.r.current_time(None)
        return None

    # -------------------------------------------------------------- policies
    def choose(self, rng: random.Random, policy: str):
        """Returns (op_id, machine_id) for the next dispatch.  Candidates come
        from the reference ready list or from the library's available list
        depending on the policy."""
        ready = self.r.ready()
        if policy == "random_ready":
            cand = ready
        else:
            cand = self.ids(self.d.available_operations()) or ready
        if policy in ("random_ready", "random_available"):
            o = rng.choice(cand)
        elif policy == "one_job_first":
            o = min(cand, key=lambda x: self.r.op_job[x])
        elif policy == "round_robin":
            self.rr += 1
            o = cand[self.rr % len(cand)]
        elif policy == "latest_start":
            o = max(cand, key=lambda x: (self.r.est(x), x))
        elif policy == "earliest_start":
            o = min(cand, key=lambda x: (self.r.est(x), x))
        elif policy == "last_machine":
            o = rng.choice(cand)
        else:
            raise ValueError(policy)
        ms = self.r.op_machines[o]
        if policy == "last_machine":
            m = ms[-1]
        elif policy == "latest_start":
            m = max(ms, key=lambda mm: self.r.start_on(o, mm))
        else:
            m = rng.choice(ms)
        return o, m

    def dispatch(self, oid, m, explicit_machine=True):
        try:
            return self._dispatch(oid, m, explicit_machine)
        except Warning as w:
            # (ambient lane: the user's warning policy turned a warning of the library into an
            # error) the request either took effect completely or not at all
            op = self.ops[oid]
            placed = any(so.operation is op for lst in self.d.schedule.schedule for so in lst)
            if placed and oid not in self.r.start:
                self.r.apply(oid, m)
            got = (list(self.d.machine_next_available_time), list(self.d.job_next_available_time),
                   list(self.d.job_next_operation_index))
            want = (list(self.r.machine_end), list(self.r.job_end), list(self.r.job_next))
            if got != want:
                raise DispatchLeftHalfDone(
                    f"a dispatch interrupted by {type(w).__name__}({str(w)[:80]!r}) left the dispatcher half "
                    f"updated: operation in the schedule: {placed}; tracking {got}, consistent state {want}")

    def _dispatch(self, oid, m, explicit_machine=True):
        op = self.ops[oid]
        if explicit_machine or len(self.r.op_machines[oid]) > 1:
            if NUMPY_MACHINE_IDS and (oid + len(self.r.history)) % NUMPY_MACHINE_IDS == 3:
                # machine ids often arrive as numpy integers (actions sampled from a space, ids
                # read from an array); they are integers like any other
                import numpy as np
                self.d.dispatch(op, np.int64(m))
            else:
                self.d.dispatch(op, m)
        else:
            self.d.dispatch(op)
        self.r.apply(oid, m)

    def done(self):
        return self.r.complete()


def gen_history_case(rng, *, classes=None, max_jobs=4, max_machines=4,
                     filters=True, max_ops=None, policies=None):
    cls = rng.choice(classes or gen.INSTANCE_CLASSES)
    inst = gen.gen_instance(rng, cls, max_jobs, max_machines, max_ops)
    fs = gen.gen_filter_spec(rng) if filters else None
    return {
        "instance": inst,
        "filter": fs,
        "policy": rng.choice(policies or gen.POLICIES),
        "seed": rng.randrange(2**31),
    }


def all_histories(inst, filter_names=None, limit=None):
    """Exhaustive enumeration of complete dispatch histories (reference model
    decides what is ready / available).  Yields lists of (op, machine)."""
    r = Ref(inst)
    count = [0]

    def rec():
        if r.complete():
            count[0] += 1
            yield list(r.history)
            return
        cand = r.available(filter_names)
        for o in cand:
            for m in r.op_machines[o]:
                snap = r.clone()
                r.apply(o, m)
                yield from rec()
                r.__dict__.update(snap.__dict__)
                if limit is not None and count[0] >= limit:
                    return

    yield from rec()
