#!/bin/sh
# Offline setup: the machinery is pure Python (stdlib + the packages already in
# /venv, which is the repository's own interpreter).  Nothing to build; this
# only verifies that the interpreter and the editable install are usable.
set -e
cd "$(dirname "$0")"
mkdir -p evidence replays
PYTHONPATH="$(pwd)" /venv/bin/python -c "import jsverif.core, job_shop_lib, numpy, networkx, gymnasium, jsonschema; print('jsverif setup ok:', job_shop_lib.__file__)"
